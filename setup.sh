#!/bin/sh
# Offline setup: third-party test libraries from the local wheelhouse, then self-tests of the reference semantics.
cd "$(dirname "$0")" || exit 2
WH=/opt/veriftools/wheels
/venv/bin/python -c 'import hypothesis' 2>/dev/null || \
  /venv/bin/pip install --no-index --find-links "$WH" hypothesis || exit 2
mkdir -p .deps
PYTHONPATH="$PWD/.deps" /venv/bin/python -c 'import atheris' 2>/dev/null || \
  /venv/bin/pip install --no-index --find-links "$WH" --target "$PWD/.deps" atheris >/dev/null 2>&1 || \
  echo "setup: atheris not installable; byte-level fuzz targets fall back to Hypothesis-driven bytes"
PYTHONPATH="$PWD" /venv/bin/python -m vf.refsem || exit 2
echo setup ok
