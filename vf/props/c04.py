"""C04 -- every single expansion step preserves satisfiability exactly (complete finite enumeration)."""
from __future__ import annotations

from itertools import product

from .. import ast as A
from .. import refsem as R
from ..attrib import impl_name, satisfied
from ..lib import get_logic

ID = 'C04'
LEVEL = 'exploration'
EXHAUSTIVE = {'quick': True, 'thorough': True}
RULE = ('complete enumeration per logic of every node shape (operator | quantifier | modal operator) x negated x '
        'designation with atomic components (operator shapes also with negated-atom operands), in contexts of k in {0,1,2} constants / accessible worlds; the expansion '
        'produced by the real rule (found with the full rule set, then re-applied alone until it has no target) is '
        'compared with the reference semantics in both directions for every valuation of the components (all value '
        'pairs; all monadic valuations over the branch constants plus one unnamed element; all valuations over the '
        'worlds on the branch plus one unnamed world). Frame rules: every set of access pairs over <= 3 worlds, the '
        'frame rules run to completion, result compared with the required closure. One obligation = (logic, shape, '
        'context); each is distinct and non-trivial. Second stream (both tiers): every operator-rule application '
        'inside Hypothesis-generated whole proofs (compound components) is re-checked with the same oracle.')
ASSUMPTIONS = [
    'reference semantics vf/refsem.py (tables decided by C07)',
    'modal operator rules are checked against K semantics of the base logic (frame conditions are the frame rules\' job and are checked separately)',
    'domains are non-empty',
]

Fx = ('P', (0, 0, 1), (A.var(0),))
PA, PB = A.atom(0), A.atom(1)
CONSTS = [A.const(0), A.const(1), A.const(2), A.const(3)]
F1 = (0, 0, 1)
G1 = (1, 0, 1)


def fam(name):
    return R.base_of(name) + '*'


# ----------------------------------------------------------------------------- shapes

def operator_shapes(name):
    ds = (None,) if R.is_classical(name) else (True, False)
    for o in A.TF_OPS:
        for negated in (False, True):
            if o == 'Negation' and not negated:
                continue
            # components: atomic, and negated atoms (rules that add or strip a negation must treat ~X as a sentence,
            # not as "the opposite of X": negation is not involutive in G3 and P3)
            if A.OPS[o] == 1:
                variants = [('', (PA,)), ('~', (A.neg(PA),))]
            else:
                variants = [('', (PA, PB)), ('~,', (A.neg(PA), PB)), (',~', (PA, A.neg(PB))), ('~,~', (A.neg(PA), A.neg(PB)))]
            for vname, comps in variants:
                if o == 'Negation' and vname:
                    continue
                core = A.op(o, *comps)
                s = A.neg(core) if negated else core
                for d in ds:
                    yield dict(kind='operator', oper=o, negated=negated, designated=d, sentence=s, variant=vname)


def quantifier_shapes(name):
    if not R.is_quantified(name):
        return
    ds = (None,) if R.is_classical(name) else (True, False)
    for q in A.QUANTS:
        for negated in (False, True):
            # the body atomic, negated (an instance must be the body with the constant, not "its opposite") and binary
            # (the variable must be replaced in every operand)
            for vname, body in (('', Fx), ('~', A.neg(Fx)), ('&', A.op('Conjunction', Fx, Fx))):
                core = ('Q', q, A.var(0), body)
                s = A.neg(core) if negated else core
                for d in ds:
                    for k in (0, 1, 2):
                        yield dict(kind='quantifier', oper=q, negated=negated, designated=d, sentence=s, k=k, variant=vname)


def modal_shapes(name):
    if not R.is_modal(name):
        return
    ds = (None,) if R.is_classical(name) else (True, False)
    for o in A.MODAL_OPS:
        for negated in (False, True):
            for vname, operand in (('', PA), ('~', A.neg(PA))):
                core = A.op(o, operand)
                s = A.neg(core) if negated else core
                for d in ds:
                    for k in (0, 1, 2):
                        yield dict(kind='modal', oper=o, negated=negated, designated=d, sentence=s, k=k, variant=vname)


def shape_name(sh, fingerprint=False):
    n = 'DoubleNegation' if (sh['oper'] == 'Negation' and sh['negated']) else sh['oper'] + ('Negated' if sh['negated'] else '')
    if sh['designated'] is not None:
        n += 'Designated' if sh['designated'] else 'Undesignated'
    if 'k' in sh:
        n += f'/k={sh["k"]}'
    if sh.get('variant') and not fingerprint:
        n += f'/operands={sh["variant"]}'
    return n


def all_obligations(name):
    yield from operator_shapes(name)
    yield from quantifier_shapes(name)
    yield from modal_shapes(name)


# ----------------------------------------------------------------------------- running the real rule

def _triple(node):
    s = node.get('sentence')
    return (A.from_lib(s) if s is not None else None, node.get('designated'), node.get('world'))


def _shape_rule(tab, branch, sentence):
    """The operator / quantifier rule of the full rule set that offers a target on the node carrying
    ``sentence`` (access and closure rules are not candidates).  Returns the rule class or None."""
    for rule in tab.rules:
        if getattr(rule, 'operator', None) is None and getattr(rule, 'quantifier', None) is None:
            continue
        target = rule.target(branch)
        if target is None:
            continue
        node = target.get('node')
        if node is not None and node.get('sentence') is not None and A.from_lib(node['sentence']) == sentence:
            return type(rule)
    return None


def _find_rule(logic, nodes, sentence):
    "Full rule set on a hand-made branch; returns the rule class that would expand the shape node (or None)."
    from pytableaux.proof import Tableau
    tab = Tableau(logic)
    b = tab.branch()
    for n in nodes:
        b.append(n)
    return _shape_rule(tab, b, sentence)


def _run_single(logic, rulecls, nodes=None, argument=None, limit=60):
    "Tableau with only ``rulecls``; step until it has no target. Returns (tab, n0)."
    from pytableaux.proof import Tableau
    tab = Tableau(logic)
    tab.rules.clear()
    if rulecls is not None:
        tab.rules.append(rulecls)
    if argument is not None:
        tab.argument = argument
        n0 = len(tab[0])
    else:
        b = tab.branch()
        for n in nodes:
            b.append(n)
        n0 = len(b)
    steps = 0
    while steps < limit:
        if tab.step() is None:
            break
        steps += 1
    return tab, n0, steps


def _mk(s, d, w):
    from pytableaux.proof import sdwnode
    return sdwnode(A.to_lib(s), d, w)


def _anode(w1, w2):
    from pytableaux.proof import anode
    return anode(w1, w2)


# ----------------------------------------------------------------------------- oracles

def check_operator(name, sh):
    logic = get_logic(name)
    w = 0 if R.is_modal(name) else None
    s, d = sh['sentence'], sh['designated']
    rulecls = _find_rule(logic, [_mk(s, d, w)], s)
    tag = f'{fam(name)}|{shape_name(sh, True)}'
    if rulecls is None:
        return [(f'C04|no-rule|{tag}', f'{name}: no rule applies to a {shape_name(sh)} node')], None
    tab, n0, steps = _run_single(logic, rulecls, nodes=[_mk(s, d, w)])
    impl, rname = impl_name(tab.rules[0])
    groups = []
    for b in tab:
        groups.append([_triple(n) for n in list(b)[n0:]])
    out = []
    for g in groups:
        for (gs, gd, gw) in g:
            if gs is None:
                out.append((f'C04|non-sentence-node|{tag}', f'{name} {rname}: adds a non-sentence node'))
                return out, rname
            if gw != w:
                out.append((f'C04|world-moved|{tag}|rule:{impl}/{rname}',
                            f'{name} {rname}: node at world {w}, added node at world {gw}'))
                return out, rname
    V = R.values(name)
    comps = [PA] if A.OPS[sh['oper']] == 1 else [PA, PB]
    for combo in product(V, repeat=len(comps)):
        val = dict(zip(comps, combo))
        lhs = satisfied(name, R.prop_value(name, s, val), d)
        rhs = any(all(satisfied(name, R.prop_value(name, gs, val), gd) for gs, gd, _ in g) for g in groups)
        if lhs != rhs:
            kind = 'too-strong' if lhs else 'too-weak'
            vs = ','.join(f'{A.show(c)}={v}' for c, v in val.items())
            ext = ' | '.join(', '.join(f'{A.show(gs)}{_dmark(gd)}' for gs, gd, _ in g) for g in groups)
            out.append((f'C04|{kind}|{tag}|rule:{impl}/{rname}',
                        f'{name} {rname}: node {A.show(s)}{_dmark(d)} with {vs} is {"" if lhs else "not "}satisfied but '
                        f'{"no" if lhs else "an"} extension is: [{ext}]'))
            break
    return out, rname


def _dmark(d):
    return '' if d is None else (' +' if d else ' -')


def _qmodel(name, domain, fvals):
    m = R.Model(name, [0], (), list(domain))
    m.preds[0] = {F1: {(c,): v for c, v in zip(domain, fvals)}}
    m.default = None
    return m


def check_quantifier(name, sh):
    """Via the trunk of a crafted argument (the constant-limit helpers initialise at trunk build)."""
    logic = get_logic(name)
    s, d, k = sh['sentence'], sh['designated'], sh['k']
    classical = R.is_classical(name)
    carriers = [('P', G1, (CONSTS[i],)) for i in range(k)]
    inert = A.atom(4)
    # the shape as a premise (designated / true) or as the conclusion (undesignated; classical: negated conclusion)
    if classical:
        prem, con = [s, *carriers], inert
    elif d:
        prem, con = [s, *carriers], inert
    else:
        prem, con = [inert, *carriers], s
    arg = A.arg_to_lib(prem, con)
    from pytableaux.proof import Tableau
    tab0 = Tableau(logic, arg)
    rulecls = _shape_rule(tab0, tab0[0], s)
    tag = f'{fam(name)}|{shape_name(sh)}'
    if rulecls is None:
        return [(f'C04|no-rule|{tag}', f'{name}: no rule applies to a {shape_name(sh)} node (trunk of {A.show_arg(prem, con)})')], None
    tab, n0, steps = _run_single(logic, rulecls, argument=arg)
    impl, rname = impl_name(tab.rules[0])
    w = 0 if R.is_modal(name) else None
    c0 = CONSTS[:k]
    V = R.values(name)
    branches = []
    for b in tab:
        added = [_triple(n) for n in list(b)[n0:]]
        consts = sorted({c for gs, _, _ in added if gs is not None for c in A.constants(gs)} | set(c0))
        branches.append((added, consts))
    out = []
    for added, consts in branches:
        for gs, gd, gw in added:
            if gs is None:
                return [(f'C04|non-sentence-node|{tag}|rule:{impl}/{rname}', f'{name} {rname}: adds a non-sentence node (limit flag?) after {steps} steps')], rname
            if gw != w:
                return [(f'C04|world-moved|{tag}|rule:{impl}/{rname}', f'{name} {rname}: added node at world {gw}')], rname
    unnamed = ('c', 3, 9)
    # (=>) every model of the node over C0 + one unnamed element has an extension satisfying some branch,
    #      new constants denoting elements of the domain
    dom = [*c0, unnamed]
    for fv in product(V, repeat=len(dom)):
        m = _qmodel(name, dom, fv)
        if not satisfied(name, m.value(s), d):
            continue
        ok = False
        for added, consts in branches:
            new = [c for c in consts if c not in c0]
            for img in product(range(len(dom)), repeat=len(new)):
                dom2 = dom + new
                m2 = _qmodel(name, dom2, list(fv) + [fv[i] for i in img])
                if all(satisfied(name, m2.value(gs), gd) for gs, gd, _ in added):
                    ok = True
                    break
            if ok:
                break
        if not ok:
            vs = ','.join(f'F{A.std(c)}={v}' for c, v in zip(dom, fv))
            out.append((f'C04|too-strong|{tag}|rule:{impl}/{rname}',
                        f'{name} {rname}: {A.show(s)}{_dmark(d)} holds in the model {vs} (last element unnamed) but no '
                        f'extension can be satisfied: {_fmt_branches(branches)}'))
            break
    # (<=, saturation) over the domain of exactly the branch constants: additions satisfied => node satisfied
    for added, consts in branches:
        dom = consts or [CONSTS[0]]
        bad = None
        for fv in product(V, repeat=len(dom)):
            m = _qmodel(name, dom, fv)
            if all(satisfied(name, m.value(gs), gd) for gs, gd, _ in added) and not satisfied(name, m.value(s), d):
                bad = fv
                break
        if bad is not None:
            vs = ','.join(f'F{A.std(c)}={v}' for c, v in zip(dom, bad))
            out.append((f'C04|too-weak|{tag}|rule:{impl}/{rname}',
                        f'{name} {rname}: extension [{_fmt_nodes(added)}] is satisfied by {vs} over the branch constants, '
                        f'but {A.show(s)}{_dmark(d)} is not (rule left an instance unapplied or is too weak)'))
            break
    return out, rname


def _fmt_nodes(added):
    return ', '.join(f'{A.show(gs)}{_dmark(gd)}' + (f' w{gw}' if gw is not None else '') if gs is not None else '<flag>'
                     for gs, gd, gw in added)


def _fmt_branches(branches):
    return ' | '.join('[' + _fmt_nodes(a) + ']' for a, _ in branches)


def _mmodel(name, worlds, R0, avals):
    m = R.Model(name, list(worlds), [(0, v) for v in R0], [])
    for w, v in zip(worlds, avals):
        m.atoms[w] = {PA: v}
    return m


def check_modal(name, sh):
    """Hand-made branch on a tableau without trunk (the world-limit helper is inert there)."""
    logic = get_logic(name)
    s, d, k = sh['sentence'], sh['designated'], sh['k']
    nodes = lambda: [_mk(s, d, 0)] + [_anode(0, i) for i in range(1, k + 1)]
    tag = f'{fam(name)}|{shape_name(sh)}'
    rulecls = _find_rule(logic, nodes(), s)
    V = R.values(name)
    if rulecls is None:
        # no rule offered a target on the node: the empty expansion; exact iff the node holds in every
        # canonical model of the context (true for a necessity-type node with no accessible world)
        worlds = list(range(k + 1))
        for av in product(V, repeat=len(worlds)):
            m = _mmodel(name, worlds, range(1, k + 1), av)
            if not satisfied(name, m.value(s, 0), d):
                return [(f'C04|no-rule|{tag}', f'{name}: no rule applies to a {shape_name(sh)} node although it constrains the model')], None
        return [], '(empty expansion)'
    tab, n0, steps = _run_single(logic, rulecls, nodes=nodes())
    impl, rname = impl_name(tab.rules[0])
    out = []
    branches = []
    for b in tab:
        added = []
        access = [(0, i) for i in range(1, k + 1)]
        for n in list(b)[n0:]:
            if n.get('world1') is not None:
                access.append((n['world1'], n['world2']))
                continue
            t = _triple(n)
            if t[0] is None:
                return [(f'C04|non-sentence-node|{tag}|rule:{impl}/{rname}', f'{name} {rname}: adds a non-sentence node')], rname
            added.append(t)
        worlds = sorted({0} | {x for p in access for x in p} | {gw for _, _, gw in added})
        branches.append((added, access, worlds))
    # (=>) models: worlds = context worlds + one unnamed world; R(0) contains the context pairs, the rest free
    ctx = list(range(k + 1))
    unnamed = 9
    W = ctx + [unnamed]
    for extra in product((False, True), repeat=2):
        R0 = list(range(1, k + 1)) + ([0] if extra[0] else []) + ([unnamed] if extra[1] else [])
        for av in product(V, repeat=len(W)):
            m = _mmodel(name, W, R0, av)
            if not satisfied(name, m.value(s, 0), d):
                continue
            ok = False
            for added, access, worlds in branches:
                new = [w for w in worlds if w not in ctx]
                for img in product(range(len(W)), repeat=len(new)):
                    f = {w: w for w in ctx}
                    f.update({w: W[i] for w, i in zip(new, img)})
                    if any((f[a], f[b]) not in m.R for a, b in access):
                        continue
                    if all(satisfied(name, m.value(gs, f[gw]), gd) for gs, gd, gw in added):
                        ok = True
                        break
                if ok:
                    break
            if not ok:
                vs = ','.join(f'A@w{w}={v}' for w, v in zip(W, av))
                out.append((f'C04|too-strong|{tag}|rule:{impl}/{rname}',
                            f'{name} {rname}: {A.show(s)}{_dmark(d)} at w0 holds with R(0)={R0}, {vs} but no extension '
                            f'can be satisfied: {_fmt_branches([(a, None) for a, _, _ in branches])}'))
                break
        if out:
            break
    # (<=, saturation) canonical model of each resulting branch
    for added, access, worlds in branches:
        bad = None
        for av in product(V, repeat=len(worlds)):
            m = R.Model(name, worlds, access, [])
            for w, v in zip(worlds, av):
                m.atoms[w] = {PA: v}
            if all(satisfied(name, m.value(gs, gw), gd) for gs, gd, gw in added) and not satisfied(name, m.value(s, 0), d):
                bad = av
                break
        if bad is not None:
            vs = ','.join(f'A@w{w}={v}' for w, v in zip(worlds, bad))
            out.append((f'C04|too-weak|{tag}|rule:{impl}/{rname}',
                        f'{name} {rname}: extension [{_fmt_nodes(added)}] with access {access} is satisfied by {vs} but '
                        f'{A.show(s)}{_dmark(d)} at w0 is not (an accessible world left unapplied, or rule too weak)'))
            break
    return out, rname


# ----------------------------------------------------------------------------- frame rules

FRAME_RULES = {'T': ('Reflexive',), 'S4': ('Reflexive', 'Transitive'), 'S5': ('Reflexive', 'Transitive', 'Symmetric'),
               'D': ('Serial',)}


def frame_contexts(nworlds=3):
    "Every set of access pairs over <= 3 worlds, plus which worlds carry an atomic sentence node."
    ws = list(range(nworlds))
    pairs = [(a, b) for a in ws for b in ws]
    for mask in range(1 << len(pairs)):
        acc = [p for i, p in enumerate(pairs) if mask >> i & 1]
        yield acc


def check_frame(name, acc, sent_worlds):
    logic = get_logic(name)
    frame = R.frame_of(name)
    from pytableaux.proof import Tableau
    tab = Tableau(logic)
    tab.rules.clear()
    rulenames = FRAME_RULES.get(frame, ())
    classes = []
    for group in logic.Rules.groups:
        for rc in group:
            if rc.name in rulenames:
                classes.append(rc)
    for rc in classes:
        tab.rules.append(rc)
    b = tab.branch()
    d = None if R.is_classical(name) else True
    for w in sent_worlds:
        b.append(_mk(PA, d, w))
    for (x, y) in acc:
        b.append(_anode(x, y))
    steps = 0
    while steps < 200 and tab.step() is not None:
        steps += 1
    if steps >= 200:
        return [(f'C04|frame-no-termination|{name}', f'{name}: frame rules do not terminate on access {acc}')]
    if len(tab) != 1:
        return [(f'C04|frame-branches|{name}', f'{name}: frame rules forked the branch')]
    got = {(n['world1'], n['world2']) for n in tab[0] if n.get('world1') is not None}
    worlds = set(sent_worlds) | {x for p in acc for x in p}
    if frame == 'D':
        out = []
        for w in sent_worlds:
            if not any(p[0] == w for p in got):
                out.append((f'C04|frame|D*|serial-missing', f'{name}: sentence worlds {sorted(sent_worlds)}, access {acc}: '
                            f'world {w} carries a sentence but gets no successor (result {sorted(got)})'))
                break
        # the other direction: an added pair asks for more than seriality gives unless it leads to a world of its own
        added = sorted(got - set(acc))
        for (x, y) in added:
            if y in worlds:
                out.append((f'C04|frame|D*|serial-reuses-world', f'{name}: sentence worlds {sorted(sent_worlds)}, access {acc}: added {x}->{y}, '
                            f'but {y} is an existing world: seriality does not make it a successor of {x}'))
                break
        succ = [y for _, y in added]
        if len(succ) != len(set(succ)):
            out.append((f'C04|frame|D*|serial-shared-successor', f'{name}: sentence worlds {sorted(sent_worlds)}, access {acc}: added {added}: '
                        f'two worlds were given the same successor, which seriality does not provide'))
        return out
    want = R.closure(frame, worlds, acc)
    if got != want:
        missing = sorted(want - got)
        extra = sorted(got - want)
        rule = 'extra' if extra else _missing_kind(frame, worlds, acc, got, missing)
        return [(f'C04|frame|{frame}*|{rule}', f'{name}: sentence worlds {sorted(sent_worlds)}, access {acc}: result '
                 f'{sorted(got)} != required closure; missing {missing} extra {extra}')]
    return []


def _missing_kind(frame, worlds, acc, got, missing):
    a, b = missing[0]
    if a == b:
        return 'reflexive-missing'
    if (b, a) in got and frame == 'S5':
        return 'symmetric-missing'
    return 'transitive-missing'


# ----------------------------------------------------------------------------- campaign

def run_inproof(shard, acc):
    """Second stream: every operator-rule application inside random whole proofs, compound components included,
    re-checked locally with the same oracle (vf/attrib.py)."""
    from hypothesis import HealthCheck, Phase, given, seed, settings
    from hypothesis import strategies as st
    from .. import gen, prover
    from ..attrib import entry_triples, impl_name as _impl, step_exact
    prof = gen.Profile(w_atom=5, w_pred=2, w_ident=1, w_neg=4, w_assert=2, w_bin=10, w_modal=2, w_quant=2, max_depth=4)

    @seed(shard['seed'] * 1000 + shard['shard'])
    @settings(max_examples=shard['examples'], database=None, deadline=None, report_multiple_bugs=False,
              phases=[Phase.generate], suppress_health_check=list(HealthCheck))
    @given(st.data())
    def body(data):
        logic = data.draw(gen.logic_name())
        prem, con = data.draw(gen.argument(prof.for_logic(logic), 2))
        case = prover.mk_case(logic, prem, con, order=data.draw(st.integers(0, 3)), max_steps=120)
        res, n = check_inproof(case)
        acc.case(('inproof', logic, case['premises'], case['conclusion']), nontrivial=n > 0, classes=('in-proof',),
                 sample=prover.case_str(case) + f' ({n} operator-rule applications re-checked)')
        acc.extra['inproof_steps'] = acc.extra.get('inproof_steps', 0) + n
        for fp, d in res:
            acc.finding(fp, dict(kind='inproof', **case), d)
    body()


def check_inproof(case):
    from .. import prover
    from ..attrib import entry_triples, impl_name as _impl, step_exact
    logic, prem, con = prover.case_args(case)
    try:
        tab = prover.build(logic, prem, con, order=case.get('order', 0), max_steps=case.get('max_steps', 120))
    except Exception:
        return [], 0
    out = []
    n = 0
    seen = set()
    for entry in tab.history:
        tr = entry_triples(entry)
        if tr is None:
            continue
        n += 1
        bad = step_exact(logic, *tr)
        if bad is not None:
            impl, rname = _impl(entry.rule)
            fp = f'C04|in-proof|{bad["kind"]}|{fam(logic)}|rule:{impl}/{rname}'
            if fp not in seen:
                seen.add(fp)
                node = tr[0]
                out.append((fp, f'{prover.case_str(case)}: {rname} applied to {A.show(node[0])}{_dmark(node[1])}: {bad}'))
    return out, n


def shards(tier, seed):
    names = sorted(R.LOGICS)
    out = [dict(kind='shapes', logics=names[i::16]) for i in range(16)]
    out += [dict(kind='inproof', seed=seed, shard=i, examples=300 if tier == 'quick' else 2000) for i in range(8 if tier == 'quick' else 32)]
    for name in names:
        if R.frame_of(name) in FRAME_RULES:
            out.append(dict(kind='frame', logic=name, nworlds=3 if (tier == 'thorough' or R.base_of(name) in ('CFOL', 'FDE')) else 2))
    return out


def run_obligation(name, sh):
    if sh['kind'] == 'operator':
        return check_operator(name, sh)
    if sh['kind'] == 'quantifier':
        return check_quantifier(name, sh)
    return check_modal(name, sh)


def sh_json(sh):
    d = dict(sh)
    d['sentence'] = A.to_json(sh['sentence'])
    return d


def run_shard(shard, acc):
    if shard['kind'] == 'inproof':
        return run_inproof(shard, acc)
    if shard['kind'] == 'shapes':
        for name in shard['logics']:
            shown = set()
            for sh in all_obligations(name):
                res, rname = run_obligation(name, sh)
                key = (name, shape_name(sh))
                sample = None
                if sh['kind'] not in shown:
                    shown.add(sh['kind'])
                    sample = f'{name} {shape_name(sh)}: node {A.show(sh["sentence"])}{_dmark(sh["designated"])} expanded by {rname}'
                acc.case(key, nontrivial=True, classes=(sh['kind'],), sample=sample)
                for fp, detail in res:
                    acc.finding(fp, dict(kind='shape', logic=name, shape=sh_json(sh)), detail)
        return
    name = shard['logic']
    frame = R.frame_of(name)
    n = shard['nworlds']
    ws = list(range(n))
    from itertools import combinations
    subsets = [list(c) for r in range(0, n + 1) for c in combinations(ws, r)]
    first = True
    for accp in frame_contexts(n):
        # sentence nodes: none, world 0 only, all worlds mentioned ... (all subsets for <= 2 worlds)
        sw_options = subsets if n <= 2 or frame == 'D' else ([], [0], ws)
        for sw in sw_options:
            if not accp and not sw:
                continue
            res = check_frame(name, accp, sw)
            acc.case((name, accp, sw), nontrivial=True, classes=('frame',),
                     sample=(f'{name}: frame rules on access {accp} with sentence nodes at worlds {sw}' if first and accp else None))
            if accp:
                first = False
            for fp, detail in res:
                acc.finding(fp, dict(kind='frame', logic=name, access=accp, sentence_worlds=sw), detail)


def replay(case):
    if case['kind'] == 'inproof':
        return check_inproof(case)[0]
    if case['kind'] == 'shape':
        sh = dict(case['shape'])
        sh['sentence'] = A.from_json(sh['sentence'])
        return run_obligation(case['logic'], sh)[0]
    return check_frame(case['logic'], [tuple(p) for p in case['access']], case['sentence_worlds'])
