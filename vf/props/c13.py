"""C13 -- parsers accept only closed well-formed sentences and fail only with ParseError."""
from __future__ import annotations

import json
import os
import subprocess
import sys
from itertools import product

from hypothesis import HealthCheck, Phase, given, seed, settings
from hypothesis import strategies as st

from .. import ast as A
from .. import gen

ID = 'C13'
LEVEL = 'exploration'
EXHAUSTIVE = {'quick': True, 'thorough': True}
RULE = ('(1) exhaustive: every string of <= 4 characters over each notation\'s alphabet (digits thinned to 0,1,2,9) plus one foreign '
        'character, parsed by a fresh parser; (2) Hypothesis text over alphabet + foreign characters, and grammar mutations of valid '
        'renderings (delete / duplicate / swap / insert a character, unbalance a parenthesis, digit runs up to 6000); (3) predicate '
        'stores: empty, drawn, frozen empty, auto_preds on / off; (4) histories: 0-5 earlier parses on the same parser, then the same '
        'string on a fresh parser holding a copy of the store, optionally with an unrelated second parser (own store, either notation) used in '
        'between; the standard parser also with drop_parens=False (then every binary operator needs its parentheses); (4a) two parsers built over one store object, interleaved, with clashing arities: every result must be the same whether the store starts '
        'empty or with a declaration of a symbol that occurs nowhere (irrelevant-declaration invariance); (4b) deep nesting: 8 shapes '
        'per notation (prefix chains, left / right nested binaries, quantified, ill-formed) at every depth 1..H and 8 stack alignments with the '
        'recursion limit lowered to current depth + H, so that the stack is exhausted at every possible point of the parse; (5) atheris / libFuzzer byte-level target (thorough tier; empty corpus '
        'and the literal strings of test/lang as seeds). Oracle: the result is a Sentence or the exception is a ParseError (subclasses '
        'included), nothing else; a returned sentence passes an independent walker (closed, every quantifier\'s variable occurs in its '
        'scope ...) and accounts for exactly the symbols (with subscripts) and parentheses of the input; '
        'scope, no variable bound twice on a path, arity = number of parameters); the fresh parser gives the same sentence / the same '
        'error class and ends with an equal store. Non-trivial = an accepted string, or one rejected at a position >= 2; distinct by '
        '(notation, string, store, history).')
ASSUMPTIONS = ['stack exhaustion is part of the input space: sys.setrecursionlimit is lowered (and restored) by the deep-nesting part so that it is reached cheaply']

STD_ALPHA = '*~&V><$%PNXL!=xyzvabcdFGHOABCDE() '
POL_ALPHA = 'TNKACEUBMLSVJIxyzvmnosFGHOabcde '
DIGITS_THIN = '0129'
FOREIGN = '#'


def alphabet(notation, thin=True):
    return (STD_ALPHA if notation == 'standard' else POL_ALPHA) + (DIGITS_THIN if thin else '0123456789')


def make_parser(notation, store=None, auto=True, frozen=False, strict=False):
    from pytableaux.lang import Parser, Predicates
    if frozen:
        preds = Predicates.EMPTY
    elif store is None:
        preds = None
    else:
        preds = Predicates([tuple(p) for p in store])
    if strict and notation == 'standard':
        return Parser(notation, preds, auto_preds=auto, drop_parens=False)
    return Parser(notation, preds, auto_preds=auto)


def outcome(parser, text):
    """('ok', AST) | ('error', class name) | ('BAD', description)"""
    from pytableaux.errors import ParseError
    from pytableaux.lang import Sentence
    try:
        r = parser(text)
    except ParseError as e:
        return ('error', type(e).__name__, str(e))
    except RecursionError:
        return ('recursion', '', '')
    except Exception as e:
        return ('BAD', f'{type(e).__name__}', repr(e)[:200])
    if not isinstance(r, Sentence):
        return ('BAD', 'not-a-sentence', repr(r)[:100])
    try:
        return ('ok', A.from_lib(r), '')
    except Exception as e:
        return ('BAD', 'unreadable-result', repr(e)[:100])


def token_multiset(text):
    """Symbols with their (numeric) subscripts, as a sorted list, plus the number of ( and ).
    Invariant under whitespace, leading zeros, outer parentheses and prefix / infix placement."""
    toks = []
    cur = None
    digits = ''
    opens = closes = 0
    for ch in text:
        if ch == ' ':
            continue
        if ch.isdigit():
            digits += ch
            continue
        if cur is not None:
            toks.append((cur, int(digits or 0)))
        digits = ''
        cur = None
        if ch == '(':
            opens += 1
        elif ch == ')':
            closes += 1
        else:
            cur = ch
    if cur is not None:
        toks.append((cur, int(digits or 0)))
    return sorted(toks), opens, closes


def accounts_for_input(notation, text, s, strict=False):
    "Necessary condition for 'the returned sentence is what the string says': every symbol of the input is used, none invented."
    if notation == 'polish':
        want = token_multiset(A.pol(s))
        got = token_multiset(text)
        return got == want, f'input symbols {got[0]} vs sentence symbols {want[0]}'
    got, o, c = token_multiset(text)
    want, wo, wc = token_multiset(A.std(s, top=False))
    if got != want:
        return False, f'input symbols {got} vs sentence symbols {want}'
    if o != c or o not in ((wo,) if strict else (wo, wo - 1)):
        return False, f'{o} "(" and {c} ")" in the input, the sentence has {wo} binary operators' + (' (drop_parens=False)' if strict else '')
    return True, ''


def store_of(parser):
    return sorted(A.pred_from_lib(p) for p in parser.predicates)


def check_string(notation, text, store=None, auto=True, frozen=False, history=(), strict=False, bystander=None):
    """Returns (violations, info)."""
    out = []
    info = dict(accepted=False, errpos=None)
    tag = notation

    def bad(kind, msg):
        fp = f'C13|{kind}'
        if not any(f == fp for f, _ in out):
            out.append((fp, f'{notation} parser, input {show(text)}, store {store}, auto_preds={auto}, history {list(history)}{' drop_parens=False' if strict else ''}: {msg}'))
    try:
        p = make_parser(notation, store, auto, frozen, strict)
    except Exception as e:
        bad(f'harness-store|{type(e).__name__}', repr(e))
        return out, info
    # an unrelated parser (own store, possibly the other notation) used in between must not matter either
    other = None
    if bystander:
        try:
            other = make_parser(bystander['notation'], bystander.get('store'), True, False)
        except Exception as e:
            bad(f'harness-store|{type(e).__name__}', repr(e))
            return out, info
    for h in history:
        o = outcome(p, h)
        if o[0] == 'BAD':
            bad(f'raises|{notation}|{o[1]}', f'earlier input {show(h)}: {o[2]}')
        if other is not None:
            outcome(other, h)
    before = store_of(p)
    if other is not None:
        for h in bystander.get('inputs', ()):
            outcome(other, h)
    o = outcome(p, text)
    if o[0] == 'BAD':
        bad(f'raises|{notation}|{o[1]}', o[2])
        return out, info
    if o[0] == 'recursion':
        return out, info
    if o[0] == 'ok':
        info['accepted'] = True
        s = o[1]
        if not A.binders_ok(s):
            why = 'free variable' if A.free_variables(s) else 'vacuous / re-bound quantifier or arity mismatch'
            bad(f'ill-formed-result|{notation}', f'returned {A.std(s)}: {why}')
        if len(text) <= 400:
            okacc, why = accounts_for_input(notation, text, s, strict)
            if not okacc:
                bad(f'accepts-ill-formed-string|{notation}', f'accepted as {A.std(s)} although {why}')
        if frozen and store_of(p):
            bad('frozen-store-changed', 'a frozen predicate store was modified')
        if not auto and store_of(p) != before:
            bad('store-changed-without-auto', f'auto_preds off but the store changed from {before} to {store_of(p)}')
    else:
        import re
        m = re.search(r'position (\d+)', o[2])
        info['errpos'] = int(m.group(1)) if m else None
        if store_of(p) != before and not auto:
            bad('store-changed-without-auto', 'a failed parse changed the store')
    # history independence: a fresh parser with a copy of the store held *before* this parse
    if history:
        try:
            q = make_parser(notation, before if not frozen else None, auto, frozen and not before, strict)
            o2 = outcome(q, text)
            if o2[0] != o[0] or (o[0] == 'ok' and o2[1] != o[1]) or (o[0] == 'error' and o2[1] != o[1]):
                bad(f'history-dependent|{notation}', f'after the history: {o[:2]}, fresh parser with the same store: {o2[:2]}')
            elif store_of(q) != store_of(p):
                bad(f'history-dependent-store|{notation}', f'stores differ afterwards: {store_of(p)} vs {store_of(q)}')
        except Exception as e:
            bad(f'harness-fresh|{type(e).__name__}', repr(e))
    return out, info


def show(text):
    return repr(text) if len(text) <= 60 else repr(text[:30] + f'...<{len(text)} chars>...' + text[-20:])


# ----------------------------------------------------------------------------- exhaustive short strings

def run_exhaustive(shard, acc):
    notation = shard['notation']
    alpha = alphabet(notation) + FOREIGN
    k, n = shard['k'], shard['n']
    L = shard['length']
    from pytableaux.errors import ParseError
    from pytableaux.lang import Parser, Sentence
    count = nontriv = accepted = 0
    first = alpha[k::n]
    lens = [L] if L > 1 else [0, 1]
    for length in lens:
        if length == 0:
            strings = [''] if k == 0 else []
        else:
            strings = (a + ''.join(rest) for a in first for rest in product(alpha, repeat=length - 1))
        for text in strings:
            count += 1
            try:
                r = Parser(notation)(text)
            except ParseError as e:
                msg = str(e)
                i = msg.rfind('position ')
                if i >= 0 and msg[i + 9:i + 10].isdigit() and int(msg[i + 9:].split()[0].rstrip('.,')) >= 2:
                    nontriv += 1
                continue
            except Exception as e:
                acc.finding(f'C13|raises|{notation}|{type(e).__name__}', dict(kind='string', notation=notation, text=text),
                            f'{notation} parser, input {text!r}: raised {e!r}')
                continue
            accepted += 1
            nontriv += 1
            ok = isinstance(r, Sentence)
            if ok:
                s = A.from_lib(r)
                ok = A.binders_ok(s)
            if not ok:
                acc.finding(f'C13|ill-formed-result|{notation}', dict(kind='string', notation=notation, text=text),
                            f'{notation} parser accepts {text!r} as {r!r}, which is not a closed well-formed sentence')
            else:
                okacc, why = accounts_for_input(notation, text, s)
                if not okacc:
                    acc.finding(f'C13|accepts-ill-formed-string|{notation}', dict(kind='string', notation=notation, text=text),
                                f'{notation} parser accepts {text!r} as {A.std(s)} although {why}')
            if accepted <= 2:
                acc.samples.append(f'{notation}: {text!r} -> {A.std(s) if ok else r!r}')
    # bulk accounting: every string is one evaluation, distinct by construction
    acc.evaluations += count
    acc.classes[f'exhaustive-{notation}-len{L}'] += count
    acc.classes['accepted'] += accepted
    acc.extra['exhaustive_strings'] = acc.extra.get('exhaustive_strings', 0) + count
    acc.extra['bulk_distinct_nontrivial'] = acc.extra.get('bulk_distinct_nontrivial', 0) + nontriv


# ----------------------------------------------------------------------------- random / mutated strings with stores and histories

def valid_renderings(data, notation):
    prof = gen.Profile(natoms=5, preds=((0, 0, 1), (1, 0, 2), (2, 1, 3)), consts=(A.const(0), A.const(1, 1), A.const(3, 10)),
                       w_atom=4, w_pred=6, w_ident=2, w_neg=4, w_assert=1, w_bin=8, w_modal=3, w_quant=4, max_depth=4)
    s = data.draw(gen.sentence(prof))
    if notation == 'polish':
        return A.pol(s)
    return A.std(s, top=data.draw(st.booleans()), infix_identity=data.draw(st.booleans()), infix_preds=data.draw(st.integers(0, 2)) == 0)


def binder_faults(data, notation):
    """A rendering that is well formed except for the binder discipline: an inner quantifier re-binding an
    enclosing variable, a vacuous quantifier, or a variable left unbound (built on the tree, then rendered)."""
    prof = gen.Profile(natoms=3, preds=((0, 0, 1), (1, 0, 2)), consts=(A.const(0), A.const(1)),
                       w_atom=2, w_pred=7, w_ident=1, w_neg=3, w_assert=0, w_bin=6, w_modal=1, w_quant=9, max_depth=4)
    s = data.draw(gen.sentence(prof, 4))
    quants = [x for x in A.subsentences(s) if x[0] == 'Q']
    if not quants:
        s = ('Q', 'Universal', A.var(0), ('P', (0, 0, 1), (A.var(0),)))
        quants = [s]
    target = quants[data.draw(st.integers(0, len(quants) - 1))]
    kind = data.draw(st.integers(0, 2))
    if kind == 0:
        # re-bind: rename the variable of an inner quantifier (binder and occurrences) to the target's variable
        inner = [x for x in A.subsentences(target[3]) if x[0] == 'Q']
        if inner:
            q = inner[data.draw(st.integers(0, len(inner) - 1))]
            newq = ('Q', q[1], target[2], A.subst(q[3], target[2], q[2]))
            s = gen._replace_first(s, q, newq)
        else:
            kind = 1
    if kind == 1:
        # vacuous: replace the variable's occurrences by a constant
        s = gen._replace_first(s, target, ('Q', target[1], target[2], A.subst(target[3], A.const(2), target[2])))
    elif kind == 2:
        # unbound: drop the quantifier, keep the body
        s = gen._replace_first(s, target, target[3])
    return A.pol(s) if notation == 'polish' else A.std(s, top=data.draw(st.booleans()))


def shared_store_scenario(steps, extra):
    """Two parsers built over ONE Predicates object (``extra``: unrelated declarations it holds from the start); each step
    is (parser index, notation, text).  Returns the list of outcomes and the final store without the unrelated entries."""
    from pytableaux.lang import Parser, Predicates
    store = Predicates([tuple(x) for x in extra])
    parsers = {}
    outs = []
    for who, notation, text in steps:
        p = parsers.get((who, notation))
        if p is None:
            p = parsers[who, notation] = Parser(notation, store)
        o = outcome(p, text)
        outs.append((o[0], A.to_json(o[1]) if o[0] == 'ok' else o[1]))
    final = sorted(A.pred_from_lib(x) for x in store if list(A.pred_from_lib(x)) not in [list(e) for e in extra])
    return outs, final


UNRELATED = [[3, 31337, 2]]


def check_shared_store(steps):
    """Irrelevant-declaration invariance: a declaration of a symbol that occurs in none of the inputs must not change any
    result.  (It does when an empty store handed to a parser is treated differently from a non-empty one.)"""
    out = []
    try:
        a, fa = shared_store_scenario(steps, [])
        b, fb = shared_store_scenario(steps, UNRELATED)
    except Exception as e:
        return [(f'C13|shared-store-raises|{type(e).__name__}', f'steps {steps}: {e!r}')]
    for i, (x, y) in enumerate(zip(a, b)):
        if x[0] == 'BAD' or y[0] == 'BAD':
            out.append((f'C13|raises|{steps[i][1]}|{x[1] if x[0] == "BAD" else y[1]}', f'shared store, step {i} {steps[i]}: {x} / {y}'))
            break
        if x != y:
            out.append((f'C13|irrelevant-declaration-changes-result|{steps[i][1]}',
                        f'two parsers over one store, steps {steps}: step {i} gives {x[:2]} when the store starts empty but {y[:2]} when it '
                        f'starts with the unrelated declaration {UNRELATED[0]}'))
            break
    else:
        if fa != fb:
            out.append(('C13|irrelevant-declaration-changes-store', f'two parsers over one store, steps {steps}: the store ends as {fa} when it '
                        f'starts empty but as {fb} when it starts with the unrelated declaration {UNRELATED[0]}'))
    return out


def arity_string(data, notation):
    "A short predication whose symbol / arity may clash with other strings of the same scenario."
    i = data.draw(st.integers(0, 1))
    k = data.draw(st.integers(1, 3))
    consts = [A.const(data.draw(st.integers(0, 2))) for _ in range(k)]
    s = ('P', (i, 0, k), tuple(consts))
    if data.draw(st.integers(0, 3)) == 0:
        s = A.neg(s)
    return A.pol(s) if notation == 'polish' else A.std(s)


def mutate(data, text, alpha):
    kind = data.draw(st.integers(0, 9))
    if not text:
        return alpha[data.draw(st.integers(0, len(alpha) - 1))]
    i = data.draw(st.integers(0, len(text) - 1))
    if kind == 0:
        return text[:i] + text[i + 1:]
    if kind == 1:
        return text[:i] + text[i] + text[i:]
    if kind == 2 and len(text) > 1:
        j = data.draw(st.integers(0, len(text) - 1))
        t = list(text)
        t[i], t[j] = t[j], t[i]
        return ''.join(t)
    if kind == 3:
        return text[:i] + alpha[data.draw(st.integers(0, len(alpha) - 1))] + text[i:]
    if kind == 4:
        return text[:i] + '(' + text[i:] if data.draw(st.booleans()) else text[:i] + ')' + text[i:]
    if kind == 5:
        n = data.draw(st.sampled_from([5, 50, 4299, 4301, 6000]))
        digit = data.draw(st.sampled_from('0129'))
        return text[:i + 1] + digit * n + text[i + 1:]
    if kind == 6:
        return text[:i] + FOREIGN + text[i:]
    if kind >= 8:
        # binder discipline: rename a variable in a suffix (re-binding, unbound and vacuous cases)
        v1, v2 = data.draw(st.sampled_from('xyzv')), data.draw(st.sampled_from('xyzv'))
        return text[:i] + text[i:].replace(v1, v2)
    return text[:i]


def run_random(shard, acc):
    @seed(shard['seed'] * 1000 + shard['shard'])
    @settings(max_examples=shard['examples'], database=None, deadline=None, report_multiple_bugs=False,
              phases=[Phase.generate], suppress_health_check=list(HealthCheck))
    @given(st.data())
    def body(data):
        notation = data.draw(st.sampled_from(['polish', 'standard']))
        alpha = alphabet(notation, thin=False) + FOREIGN + 'é'
        mode = data.draw(st.integers(0, 5))
        if mode == 5:
            notes = [notation, data.draw(st.sampled_from(['polish', 'standard']))]
            steps = []
            for _ in range(data.draw(st.integers(2, 5))):
                who = data.draw(st.integers(0, 1))
                text = arity_string(data, notes[who]) if data.draw(st.integers(0, 3)) else valid_renderings(data, notes[who])
                steps.append([who, notes[who], text])
            res = check_shared_store(steps)
            acc.case(('shared', steps), nontrivial=len({w for w, _, _ in steps}) == 2, classes=('shared-store', 'mode=5'),
                     sample=f'two parsers over one store: {steps}')
            for fp, d in res:
                acc.finding(fp, dict(kind='shared', steps=steps), d)
            return
        if mode == 4:
            text = binder_faults(data, notation)
        elif mode == 0:
            text = data.draw(st.text(alphabet=alpha, max_size=12))
        elif mode == 1:
            text = valid_renderings(data, notation)
        else:
            text = valid_renderings(data, notation)
            for _ in range(data.draw(st.integers(1, 3))):
                text = mutate(data, text, alpha)
        storekind = data.draw(st.integers(0, 4))
        store, auto, frozen = None, True, False
        if storekind == 1:
            store = sorted({(i, data.draw(st.sampled_from([0, 0, 1, 10]))): data.draw(st.integers(1, 3)) for i in range(data.draw(st.integers(0, 4)))}.items())
            store = [[k[0], k[1], a] for k, a in store]
            auto = data.draw(st.booleans())
        elif storekind == 2:
            frozen = True
            auto = False
        elif storekind == 3:
            auto = False
        history = []
        for _ in range(data.draw(st.integers(0, 5))):
            h = valid_renderings(data, notation)
            if data.draw(st.integers(0, 2)) == 0:
                h = mutate(data, h, alpha)
            history.append(h)
        if frozen:
            history = []
        strict = notation == 'standard' and data.draw(st.integers(0, 3)) == 0
        bystander = None
        if history and data.draw(st.booleans()):
            bn = data.draw(st.sampled_from(['polish', 'standard']))
            bystander = dict(notation=bn, store=[[i, 0, data.draw(st.integers(1, 3))] for i in range(data.draw(st.integers(0, 3)))],
                             inputs=[valid_renderings(data, bn) for _ in range(data.draw(st.integers(0, 2)))])
        res, info = check_string(notation, text, store, auto, frozen, history, strict, bystander)
        # strings of <= 4 characters are already counted by the exhaustive part
        nontriv = (info['accepted'] or (info['errpos'] or 0) >= 2) and len(text) > 4
        acc.case((notation, text, store, auto, frozen, history, strict, repr(bystander)), nontrivial=nontriv,
                 classes=(*(('with-bystander-parser',) if bystander else ()), *(('drop_parens=False',) if strict else ()), 'accepted' if info['accepted'] else 'rejected', f'mode={mode}', f'store={storekind}', 'with-history' if history else 'no-history'),
                 sample=f'{notation}: {show(text)} store={store} auto={auto} history={len(history)} -> {"accepted" if info["accepted"] else "rejected"}')
        for fp, d in res:
            acc.finding(fp, dict(kind='check', notation=notation, text=text, store=store, auto=auto, frozen=frozen, history=history, strict=strict, bystander=bystander), d)
    body()


# ----------------------------------------------------------------------------- deep nesting

DEEP_SHAPES = {
    'polish': [
        ('N^k a', lambda k: 'N' * k + 'a'),
        ('N^k a12', lambda k: 'N' * k + 'a12'),
        ('N^k a + blank', lambda k: 'N' * k + 'a '),
        ('K^k a^(k+1)', lambda k: 'K' * k + 'a' * (k + 1)),
        ('(Ka)^k a', lambda k: 'Ka' * k + 'a'),
        ('Vx N^k Fx', lambda k: 'Vx' + 'N' * k + 'Fx'),
        ('N^k Fm', lambda k: 'N' * k + 'Fm'),
        ('N^k (ill-formed: no leaf)', lambda k: 'N' * k),
    ],
    'standard': [
        ('~^k A', lambda k: '~' * k + 'A'),
        ('~^k A12', lambda k: '~' * k + 'A12'),
        ('~^k A + blank', lambda k: '~' * k + 'A '),
        ('(^k A (& B))^k', lambda k: '(' * k + 'A' + ' & B)' * k),
        ('(A & ^k B )^k', lambda k: 'A & (' * k + 'B & B' + ')' * k),
        ('~^k Fa', lambda k: '~' * k + 'Fa'),
        ('~^k a = b', lambda k: '~' * k + 'a = b'),
        ('(^k A & B )^k (ill-formed)', lambda k: '(' * k + 'A & B' + ')' * k),
    ],
}


def _at_depth(d, f):
    return _at_depth(d - 1, f) if d else f()


def deep_outcome(notation, text, headroom, extra):
    """Parse with the interpreter's recursion limit lowered to (current depth + headroom [+ alignment]) so that nesting
    of a few dozen levels already exhausts the stack; the limit is restored afterwards.  'ok' | 'ParseError' | other."""
    import sys
    from pytableaux.errors import ParseError
    from pytableaux.lang import Sentence
    p = make_parser(notation)
    frame, depth = sys._getframe(), 0
    while frame is not None:
        frame, depth = frame.f_back, depth + 1
    old = sys.getrecursionlimit()

    def go():
        try:
            r = p(text)
        except ParseError:
            return 'ParseError'
        except RecursionError:
            return 'RecursionError'
        except Exception as e:
            return type(e).__name__
        return 'ok' if isinstance(r, Sentence) else 'not-a-sentence'
    try:
        sys.setrecursionlimit(depth + headroom)
        return _at_depth(extra, go)
    finally:
        sys.setrecursionlimit(old)


def run_deep(shard, acc):
    notation = shard['notation']
    headroom = shard['headroom']
    for name, mk in DEEP_SHAPES[notation]:
        if shard.get('shape', name) != name:
            continue
        shown = False
        for k in range(1, headroom + 1):
            for extra in range(0, 8):
                text = mk(k)
                o = deep_outcome(notation, text, headroom, extra)
                acc.case(('deep', notation, name, k, extra, headroom), nontrivial=o != 'ok' or k > headroom // 8,
                         classes=('deep-nesting', f'deep:{o}'),
                         sample=None if shown or o == 'ok' else f'{notation}: {name} with k={k} under a stack of {headroom} frames -> {o}')
                shown = shown or o != 'ok'
                if o not in ('ok', 'ParseError'):
                    acc.finding(f'C13|raises|{notation}|{o}|deep-nesting',
                                dict(kind='deep', notation=notation, shape=name, k=k, extra=extra, headroom=headroom),
                                f'{notation} parser, input {name} with k={k} (length {len(text)}) with {headroom}+{extra} stack frames left: '
                                f'{o} instead of a sentence or ParseError')


# ----------------------------------------------------------------------------- atheris

def run_atheris(shard, acc):
    root = os.path.dirname(os.path.dirname(os.path.dirname(os.path.abspath(__file__))))
    script = os.path.join(root, 'vf', 'fuzz', 'parse_fuzz.py')
    outdir = os.path.join(os.environ.get('VERIF_OUT', root), 'replays', 'C13', f'fuzz-{shard["notation"]}-{shard["corpus"]}')
    os.makedirs(outdir, exist_ok=True)
    env = dict(os.environ, FUZZ_NOTATION=shard['notation'], FUZZ_OUT=outdir)
    args = [sys.executable, script, f'-runs={shard["runs"]}', f'-seed={shard["seed"] + 1}', '-max_len=48', '-timeout=20',
            f'-artifact_prefix={outdir}/']
    corpus = os.path.join(outdir, 'corpus')
    os.makedirs(corpus, exist_ok=True)
    if shard['corpus'] == 'seeded':
        for i, text in enumerate(seed_corpus(shard['notation'])):
            with open(os.path.join(corpus, f'seed{i}'), 'w') as f:
                f.write(text)
    args.append(corpus)
    r = subprocess.run(args, capture_output=True, text=True, env=env)
    tail = (r.stdout + r.stderr)[-2000:]
    if 'atheris unavailable' in tail:
        acc.count('atheris-unavailable')
        return
    execs = 0
    import re
    m = re.findall(r'stat::number_of_executed_units:\s*(\d+)', tail) or re.findall(r'#(\d+)\s+DONE', tail)
    if m:
        execs = int(m[-1])
    acc.evaluations += execs
    acc.classes[f'atheris-{shard["notation"]}-{shard["corpus"]}'] += execs
    acc.extra['atheris_execs'] = acc.extra.get('atheris_execs', 0) + execs
    fpath = os.path.join(outdir, 'violation.json')
    if os.path.exists(fpath):
        v = json.load(open(fpath))
        acc.finding(v['fingerprint'], dict(kind='check', notation=shard['notation'], text=v['text'], store=None, auto=True, frozen=False, history=[]), v['detail'])
    elif r.returncode != 0 and 'DONE' not in tail:
        raise RuntimeError('atheris target failed: ' + tail[-600:])


def seed_corpus(notation):
    if notation == 'polish':
        return ['a', 'Na', 'Kab', 'VxFx', 'SxKFxGxm', 'Imn', 'LMa', 'UaNb', 'Fm12', 'VxSyGxy']
    return ['A', '~A', 'A & B', 'LxFx', 'Xx(Fx & Gxa)', 'a = b', 'NPA', '(A $ ~B)', 'Fa12', 'LxXyGxy', 'a != b']


# ----------------------------------------------------------------------------- campaign

def shards(tier, seed_):
    out = []
    for notation in ('polish', 'standard'):
        out += [dict(kind='exh', notation=notation, length=1, k=0, n=1)]
        out += [dict(kind='exh', notation=notation, length=2, k=0, n=1), dict(kind='exh', notation=notation, length=3, k=0, n=2),
                dict(kind='exh', notation=notation, length=3, k=1, n=2)]
        out += [dict(kind='exh', notation=notation, length=4, k=k, n=8) for k in range(8)]
    nr = 12 if tier == 'quick' else 48
    out += [dict(kind='rand', seed=seed_, shard=i, examples=500 if tier == 'quick' else 4000) for i in range(nr)]
    for notation in ('polish', 'standard'):
        for headroom in ((120, 250) if tier == 'quick' else (60, 120, 200, 333, 700)):
            for shape, _ in DEEP_SHAPES[notation]:
                out.append(dict(kind='deep', notation=notation, headroom=headroom, shape=shape))
    runs = 30000 if tier == 'quick' else 600000
    for notation in ('polish', 'standard'):
        for corpus in ('empty', 'seeded'):
            out.append(dict(kind='atheris', notation=notation, corpus=corpus, runs=runs, seed=seed_))
    return out


def run_shard(shard, acc):
    {'exh': run_exhaustive, 'rand': run_random, 'atheris': run_atheris, 'deep': run_deep}[shard['kind']](shard, acc)


def replay(case):
    if case['kind'] == 'deep':
        mk = dict(DEEP_SHAPES[case['notation']])[case['shape']]
        o = deep_outcome(case['notation'], mk(case['k']), case['headroom'], case['extra'])
        return [] if o in ('ok', 'ParseError') else [(f"C13|raises|{case['notation']}|{o}|deep-nesting", f"{case['shape']} k={case['k']}: {o}")]
    if case['kind'] == 'shared':
        return check_shared_store([list(x) for x in case['steps']])
    if case['kind'] == 'string':
        return check_string(case['notation'], case['text'])[0]
    return check_string(case['notation'], case['text'], case.get('store'), case.get('auto', True), case.get('frozen', False),
                        case.get('history', ()), case.get('strict', False), case.get('bystander'))[0]


def shrink_candidates(case):
    if case['kind'] == 'deep':
        return
    if case['kind'] == 'shared':
        for i in range(len(case['steps'])):
            yield dict(kind='shared', steps=case['steps'][:i] + case['steps'][i + 1:])
        return
    t = case['text']
    if case.get('history'):
        c = dict(case)
        c['history'] = case['history'][:-1]
        yield c
    for i in range(len(t)):
        c = dict(case)
        c['text'] = t[:i] + t[i + 1:]
        yield c
    if len(t) > 20:
        c = dict(case)
        c['text'] = t[:len(t) // 2]
        yield c
