"""C14 -- lexical items have value semantics (algebraic laws vs an independent structural key, cache histories)."""
from __future__ import annotations

import copy
import os
import pickle
import warnings

# unpickling re-sets equal attribute values, which the library reports as RepeatValueWarning
warnings.filterwarnings('ignore', message='duplicate value for attribute')

from hypothesis import HealthCheck, Phase, given, seed, settings
from hypothesis import strategies as st

from .. import ast as A
from .. import gen

ID = 'C14'
LEVEL = 'exploration'
MAXTASKS = 1        # every shard in a fresh process: ITEM_CACHE_SIZE is read at import
RULE = ('Hypothesis items of all nine lexical types and arguments, in pairs and triples biased to near-duplicates (one coordinate '
        'or one sub-term changed) and to cross-type pairs; each shard runs in a fresh process with ITEM_CACHE_SIZE in {1, 2, 7, 1000} '
        'and interleaves a history of other constructions (0 .. 3 x cache size) between building an item and re-using it. Oracle: a '
        'structural key from an independent walk of public attributes: == iff equal keys; equal => equal hash; exactly one of <, ==, >; '
        'type rank first; antisymmetry; transitivity on triples; sorted() independent of input permutation; LexicalAbc(x.ident), '
        'type(x)(*x.spec), copy, deepcopy and pickle give equal items; setattr / delattr raise and change nothing; the same after '
        'eviction. Non-trivial = a pair of distinct items of the same type, or a rebuild after at least cache-size other '
        'constructions; distinct by (cache size, items, history length).')
ASSUMPTIONS = ['the structural walk (vf/ast.py from_lib) reads only public attributes; ranks are the documented LexType ranks']

RANKS = dict(Predicate=10, Constant=20, Variable=30, Quantifier=40, Operator=50, Atomic=60, Predicated=70, Quantified=80, Operated=90)
CACHE_SIZES = (1, 2, 7, 1000)


# ----------------------------------------------------------------------------- item descriptions (plain data)

def item_to_lib(d):
    """d: ('sentence', ast) | ('param', ast) | ('pred', p) | ('oper', name) | ('quant', name) | ('argument', [prem...], con)"""
    from pytableaux.lang import Operator, Quantifier
    k = d[0]
    if k in ('sentence', 'param'):
        return A.to_lib(d[1])
    if k == 'pred':
        return A.pred_to_lib(d[1])
    if k == 'oper':
        return Operator[d[1]]
    if k == 'quant':
        return Quantifier[d[1]]
    if k == 'argument':
        return A.arg_to_lib(list(d[1]), d[2])
    raise ValueError(d)


def key_of(x):
    "Independent structural key of a library object."
    n = type(x).__name__
    if n in ('Operator', 'Quantifier'):
        return (n, x.name)
    if n == 'Predicate':
        return (n, A.pred_from_lib(x))
    if n == 'Argument':
        return (n, tuple(A.from_lib(p) for p in x.premises), A.from_lib(x.conclusion))
    return (n, A.from_lib(x))


def key_of_desc(d):
    k = d[0]
    if k == 'sentence':
        t = {'A': 'Atomic', 'P': 'Predicated', 'Q': 'Quantified', 'O': 'Operated'}[d[1][0]]
        return (t, d[1])
    if k == 'param':
        return ('Constant' if d[1][0] == 'c' else 'Variable', d[1])
    if k == 'pred':
        return ('Predicate', d[1])
    if k == 'oper':
        return ('Operator', d[1])
    if k == 'quant':
        return ('Quantifier', d[1])
    return ('Argument', tuple(d[1]), d[2])


def show(d):
    k = d[0]
    if k == 'sentence':
        return A.show(d[1])
    if k == 'param':
        return A.std(d[1])
    if k == 'argument':
        return A.show_arg(list(d[1]), d[2])
    return f'{k}:{d[1]}'


# ----------------------------------------------------------------------------- strategies

PROF = gen.Profile(natoms=5, preds=((0, 0, 1), (1, 0, 2), (3, 2, 3)), consts=(A.const(0), A.const(1, 1), A.const(3, 10)),
                   w_atom=4, w_pred=4, w_ident=2, w_neg=3, w_assert=1, w_bin=6, w_modal=3, w_quant=3, max_depth=3)


# subscripts are arbitrary non-negative integers: besides small ones, values that CPython hashes like small ones
# (hash(n) == n mod 2**61 - 1), so that distinct items with equal hashes meet in the construction cache
_M61 = 2 ** 61 - 1
SUBS = [0, 0, 1, 2, 10, 11, _M61, _M61 + 1, _M61 + 10, 2 * _M61]


@st.composite
def param(draw):
    mk = A.const if draw(st.booleans()) else A.var
    return mk(draw(st.integers(0, 3)), draw(st.sampled_from(SUBS)))


@st.composite
def predicate(draw):
    if draw(st.integers(0, 5)) == 0:
        return draw(st.sampled_from(['Identity', 'Existence']))
    return (draw(st.integers(0, 3)), draw(st.sampled_from(SUBS)), draw(st.integers(1, 4)))


@st.composite
def open_sentence(draw):
    "Sentences possibly with free variables (legal lexical items)."
    s = draw(gen.sentence(PROF))
    if draw(st.integers(0, 3)) == 0:
        cs = sorted(A.constants(s))
        if cs:
            s = A.subst(s, A.var(draw(st.integers(0, 3)), draw(st.sampled_from([0, 1]))), cs[draw(st.integers(0, len(cs) - 1))])
    return s


@st.composite
def item(draw):
    k = draw(st.integers(0, 10))
    if k <= 3:
        return ('sentence', draw(open_sentence()))
    if k == 4:
        return ('sentence', A.atom(draw(st.integers(0, 4)), draw(st.sampled_from(SUBS))))
    if k == 5:
        return ('param', draw(param()))
    if k == 6:
        return ('pred', draw(predicate()))
    if k == 7:
        return ('oper', draw(st.sampled_from(A.OP_ORDER)))
    if k == 8:
        return ('quant', draw(st.sampled_from(A.QUANTS)))
    n = draw(st.integers(0, 3))
    return ('argument', tuple(draw(gen.sentence(PROF, draw(st.integers(0, 2)))) for _ in range(n)), draw(gen.sentence(PROF, draw(st.integers(0, 2)))))


def _bump(t, draw):
    "change one coordinate of an (index, subscript) item"
    if draw(st.booleans()):
        return (t[0], (t[1] + 1) % 4, t[2])
    return (t[0], t[1], t[2] + draw(st.sampled_from([1, 10, _M61, _M61])))       # + 2**61 - 1: another item with the same hash


@st.composite
def near(draw, d):
    "A near-duplicate of d: one coordinate / sub-term changed (or an equal rebuild)."
    k = d[0]
    mode = draw(st.integers(0, 3))
    if mode == 0:
        return d
    if k == 'param':
        if draw(st.integers(0, 3)) == 0:
            return ('param', (('v' if d[1][0] == 'c' else 'c'),) + d[1][1:])
        return ('param', _bump(d[1], draw))
    if k == 'pred':
        p = d[1]
        if isinstance(p, str):
            return ('pred', 'Existence' if p == 'Identity' else 'Identity')
        which = draw(st.integers(0, 2))
        return ('pred', tuple(v + (1 if i == which else 0) if i != 0 else (v + (1 if which == 0 else 0)) % 4 for i, v in enumerate(p)))
    if k == 'oper':
        return ('oper', draw(st.sampled_from(A.OP_ORDER)))
    if k == 'quant':
        return ('quant', draw(st.sampled_from(A.QUANTS)))
    if k == 'argument':
        prem, con = list(d[1]), d[2]
        if prem and draw(st.integers(0, 3)) > 0:
            if len(prem) > 1 and draw(st.integers(0, 2)) > 0:
                prem = prem[1:] + prem[:1]
            else:
                prem = prem[:-1]
        else:
            con = A.neg(con)
        return ('argument', tuple(prem), con)
    s = d[1]
    subs = list(A.subsentences(s))
    target = subs[draw(st.integers(0, len(subs) - 1))]
    t = target[0]
    if t == 'A':
        new = _bump(target, draw)
    elif t == 'P':
        ps = list(target[2])
        if len(ps) > 1 and draw(st.booleans()):
            ps = ps[1:] + ps[:1]            # same parameters, another order
        else:
            i = draw(st.integers(0, len(ps) - 1))
            ps[i] = _bump(ps[i], draw)
        new = ('P', target[1], tuple(ps))
    elif t == 'Q':
        if draw(st.booleans()):
            new = ('Q', 'Universal' if target[1] == 'Existential' else 'Existential', target[2], target[3])
        else:
            new = ('Q', target[1], _bump(target[2], draw), target[3])   # only the binder differs (a legal item)
    else:
        ops = [o for o in A.OPS if A.OPS[o] == A.OPS[target[1]] and o != target[1]]
        new = ('O', ops[draw(st.integers(0, len(ops) - 1))], target[2])
        if A.OPS[target[1]] == 2 and draw(st.booleans()):
            new = ('O', target[1], target[2][::-1])
    return ('sentence', gen._replace_first(s, target, new))


# ----------------------------------------------------------------------------- checks

def filler(n, salt):
    "n other constructions (evicts the cache)"
    from pytableaux.lang import Atomic, Constant
    out = []
    for i in range(n):
        out.append(Atomic(i % 5, 1000 + salt * 100 + i))
        out.append(Constant(i % 4, 2000 + salt * 100 + i))
    return out


def check_laws(descs, hist, cache):
    """descs: 2 or 3 item descriptions. Returns violations."""
    out = []

    def bad(tag, msg):
        fp = f'C14|{tag}'
        if not any(f == fp for f, _ in out):
            out.append((fp, f'[cache={cache}, history={hist}] {msg}'))
    try:
        objs = [item_to_lib(d) for d in descs]
    except Exception as e:
        bad(f'construct-raises|{type(e).__name__}', f'constructing {show(descs[0])} ... raised {e!r}')
        return out
    keys = [key_of_desc(d) for d in descs]
    for d, x, k in zip(descs, objs, keys):
        if key_of(x) != k:
            bad('walk-mismatch', f'{show(d)}: public attributes read back {key_of(x)} != constructed {k}')
    filler(hist, 1)
    # pairwise laws
    n = len(objs)
    for i in range(n):
        for j in range(n):
            x, y = objs[i], objs[j]
            kx, ky = keys[i], keys[j]
            try:
                eq = (x == y)
                ne = (x != y)
            except Exception as e:
                bad(f'eq-raises|{type(e).__name__}', f'{show(descs[i])} == {show(descs[j])} raised {e!r}')
                continue
            if eq != (kx == ky):
                bad(f'equality|{kx[0]}', f'{show(descs[i])} == {show(descs[j])} is {eq}, structural keys {"equal" if kx == ky else "differ"}')
            if ne == eq:
                bad('ne-inconsistent', f'{show(descs[i])}: != and == agree')
            if eq and hash(x) != hash(y):
                bad(f'hash|{kx[0]}', f'{show(descs[i])} == {show(descs[j])} but hashes differ')
            lexical = kx[0] != 'Argument' and ky[0] != 'Argument'
            same_family = (kx[0] == 'Argument') == (ky[0] == 'Argument')
            if same_family:
                try:
                    lt, gt = x < y, x > y
                    le, ge = x <= y, x >= y
                except Exception as e:
                    bad(f'order-raises|{type(e).__name__}', f'comparing {show(descs[i])} with {show(descs[j])} raised {e!r}')
                    continue
                if [lt, eq, gt].count(True) != 1:
                    bad(f'trichotomy|{kx[0]}', f'{show(descs[i])} vs {show(descs[j])}: <={lt} =={eq} >={gt}')
                if le != (lt or eq) or ge != (gt or eq):
                    bad('le-ge', f'{show(descs[i])} vs {show(descs[j])}: <= / >= inconsistent with < / == / >')
                if lexical and kx[0] != ky[0]:
                    if lt != (RANKS[kx[0]] < RANKS[ky[0]]):
                        bad('rank-first', f'{show(descs[i])} ({kx[0]}) < {show(descs[j])} ({ky[0]}) is {lt}: type rank is not first')
                try:
                    rev_lt = y < x
                    if lt and rev_lt:
                        bad('antisymmetry', f'{show(descs[i])} < {show(descs[j])} and conversely')
                    if gt != rev_lt:
                        bad('converse', f'x > y is {gt} but y < x is {rev_lt} for {show(descs[i])}, {show(descs[j])}')
                except Exception:
                    pass
    if n == 3:
        fam = [k[0] == 'Argument' for k in keys]
        if len(set(fam)) == 1:
            try:
                import itertools
                for a, b, c in itertools.permutations(objs, 3):
                    if a < b and b < c and not a < c:
                        bad('transitivity', f'order not transitive on {[show(d) for d in descs]}')
                        break
                base = [key_of(x) for x in sorted(objs)]
                for perm in itertools.permutations(objs):
                    got = [key_of(x) for x in sorted(perm)]
                    # equal items may swap: compare up to equality
                    if got != base:
                        bad('sorted-permutation', f'sorted() depends on input order for {[show(d) for d in descs]}')
                        break
            except Exception as e:
                bad(f'sort-raises|{type(e).__name__}', f'sorting {[show(d) for d in descs]} raised {e!r}')
    # rebuild / copy / pickle / immutability, after the history
    x, d, k = objs[0], descs[0], keys[0]
    filler(hist, 2)
    rebuilds = []
    if k[0] != 'Argument':
        from pytableaux.lang import LexicalAbc
        if k[0] not in ('Operator', 'Quantifier'):
            rebuilds.append(('LexicalAbc(ident)', lambda: LexicalAbc(x.ident)))
        rebuilds.append(('type(x)(*spec)', lambda: type(x)(*x.spec)))
        rebuilds.append(('type(x)(spec)', lambda: type(x)(x.spec) if k[0] in ('Constant', 'Variable', 'Atomic', 'Predicate') else x))
        if k[0] in ('Atomic', 'Predicated', 'Quantified', 'Operated'):
            from pytableaux.lang import Sentence
            rebuilds.append(('Sentence(ident)', lambda: Sentence(x.ident)))
    else:
        from pytableaux.lang import Argument
        rebuilds.append(('Argument(argstr)', lambda: Argument(x.argstr())))
    rebuilds += [('copy', lambda: copy.copy(x)), ('deepcopy', lambda: copy.deepcopy(x)),
                 ('pickle', lambda: pickle.loads(pickle.dumps(x)))]
    for name, f in rebuilds:
        try:
            y = f()
        except Exception as e:
            bad(f'rebuild-raises|{name}|{k[0]}|{type(e).__name__}', f'{name} of {show(d)} raised {e!r}')
            continue
        if key_of(y) != k or not (y == x) or hash(y) != hash(x):
            bad(f'rebuild|{name}|{k[0]}', f'{name} of {show(d)} is not an equal item (key {key_of(y)})')
    # immutability (never on enum members: a successful write would corrupt the process; see enum probe shard)
    if k[0] not in ('Operator', 'Quantifier'):
        for attr in ('spec', 'ident', 'sort_tuple', 'hash'):
            if not hasattr(x, attr):
                continue
            old = getattr(x, attr)
            try:
                setattr(x, attr, 12345)
                ok = False
            except Exception:
                ok = True
            if not ok:
                try:
                    object.__setattr__(x, attr, old)
                except Exception:
                    pass
                bad(f'mutable|setattr|{k[0]}|{attr}', f'setattr({show(d)}, {attr!r}, ...) succeeded')
            elif getattr(x, attr) != old:
                bad(f'mutable|changed|{k[0]}|{attr}', f'failed setattr changed {attr}')
            try:
                delattr(x, attr)
                bad(f'mutable|delattr|{k[0]}|{attr}', f'delattr({show(d)}, {attr!r}) succeeded')
            except Exception:
                pass
    return out


def enum_probe():
    "setattr on enum members must raise; done last in a throw-away process, restoring whatever was written."
    from pytableaux.lang import Operator, Predicate, Quantifier
    out = []
    for member, name in ((Operator.Negation, 'Operator.Negation'), (Quantifier.Universal, 'Quantifier.Universal'),
                         (Predicate.Identity, 'Predicate.Identity')):
        for attr in ('spec', 'sort_tuple', 'ident', 'hash', 'order', 'arity'):
            if not hasattr(member, attr):
                continue
            old = getattr(member, attr)
            try:
                setattr(member, attr, old)      # same value: harmless even if it succeeds
                wrote_same = True
            except Exception:
                wrote_same = False
            try:
                setattr(member, attr, 12345)
            except Exception:
                continue
            # it succeeded: restore at once
            try:
                object.__setattr__(member, attr, old)
            except Exception:
                try:
                    setattr(member, attr, old)
                except Exception:
                    pass
            out.append((f'C14|mutable|setattr|{name.split(".")[0]}|{attr}', f'setattr({name}, {attr!r}, 12345) succeeded on an enum member'))
    return out


# ----------------------------------------------------------------------------- campaign

def shards(tier, seed_):
    out = []
    per = 2 if tier == 'quick' else 6
    for cs in CACHE_SIZES:
        for i in range(per):
            out.append(dict(kind='laws', cache=cs, seed=seed_, shard=i, examples=600 if tier == 'quick' else 3000))
    out.append(dict(kind='enum', cache=1000))
    return out


def run_shard(shard, acc):
    os.environ['ITEM_CACHE_SIZE'] = str(shard['cache'])
    import sys
    assert 'pytableaux' not in sys.modules, 'C14 shards need a fresh process'
    import warnings
    warnings.simplefilter('ignore')     # unpickling re-sets equal attribute values, which the library reports as RepeatValueWarning
    cache = shard['cache']
    try:
        import pytableaux.lang  # noqa: now with the chosen cache size
    except Exception as e:
        # the package builds its example arguments at import: with a small cache that is already a history
        acc.case(('import', cache), nontrivial=True, classes=('import',))
        acc.finding(f'C14|import-fails|{type(e).__name__}', dict(kind='import', cache=cache),
                    f'importing pytableaux with ITEM_CACHE_SIZE={cache} raised {e!r}')
        return
    if shard['kind'] == 'enum':
        res = enum_probe()
        acc.case(('enum-probe',), nontrivial=True, classes=('enum-setattr-probe',), sample='setattr on Operator / Quantifier / system Predicate members')
        for fp, d in res:
            acc.finding(fp, dict(kind='enum'), d)
        return

    @seed(shard['seed'] * 1000 + shard['shard'] + cache * 17)
    @settings(max_examples=shard['examples'], database=None, deadline=None, report_multiple_bugs=False,
              phases=[Phase.generate], suppress_health_check=list(HealthCheck))
    @given(st.data())
    def body(data):
        d1 = data.draw(item())
        mode = data.draw(st.integers(0, 3))
        d2 = data.draw(near(d1)) if mode else data.draw(item())
        descs = [d1, d2]
        if data.draw(st.booleans()):
            descs.append(data.draw(near(d2)) if data.draw(st.booleans()) else data.draw(item()))
        hist = data.draw(st.sampled_from([0, 1, cache, 3 * cache])) if cache < 100 else data.draw(st.sampled_from([0, 3, 1100]))
        case = dict(kind='laws', cache=cache, hist=hist, items=[A.to_json(d) for d in descs])
        res = guarded_laws(descs, hist, cache)
        k1, k2 = key_of_desc(d1), key_of_desc(d2)
        nontriv = (k1[0] == k2[0] and k1 != k2) or hist >= cache
        acc.case((cache, hist, case['items']), nontrivial=nontriv,
                 classes=(f'cache={cache}', 'same-type-distinct' if (k1[0] == k2[0] and k1 != k2) else 'other-pair',
                          'evicted' if hist >= cache else 'cached'),
                 sample=f'cache={cache} history={hist}: ' + ' , '.join(show(d) for d in descs))
        for fp, d in res:
            acc.finding(fp, case, d)
    body()


def guarded_laws(descs, hist, cache):
    try:
        return check_laws(descs, hist, cache)
    except Exception as e:
        # an exception out of the library on a path the laws do not guard individually (building filler items,
        # rebuilding from idents ...) is a violation of value semantics, not a harness error
        from ..lib import library_frame
        where = library_frame(e)
        if where is None:
            raise
        return [(f'C14|raises|{type(e).__name__}|{where}', f'[cache={cache}, history={hist}] {" , ".join(show(d) for d in descs)}: {e!r}')]


def replay(case):
    if case.get('kind') == 'enum':
        return enum_probe()
    if case.get('kind') == 'import':
        import subprocess
        import sys
        r = subprocess.run([sys.executable, '-c', 'import pytableaux.lang'], capture_output=True, text=True,
                           env=dict(os.environ, ITEM_CACHE_SIZE=str(case['cache'])))
        return [('C14|import-fails|' + (r.stderr.strip().splitlines() or ['?'])[-1].split(':')[0].split('.')[-1], r.stderr[-300:])] if r.returncode else []
    import sys
    want = str(case['cache'])
    if 'pytableaux' in sys.modules and os.environ.get('ITEM_CACHE_SIZE', '1000') != want:
        # the cache size is fixed at import: re-run in a fresh interpreter
        import json
        import subprocess
        env = dict(os.environ, ITEM_CACHE_SIZE=want)
        code = ('import json,sys; from vf.props import c14; '
                'print(json.dumps(c14.replay(json.loads(sys.stdin.read()))))')
        r = subprocess.run([sys.executable, '-c', code], input=json.dumps(case), capture_output=True, text=True, env=env)
        return [tuple(x) for x in json.loads(r.stdout.strip().splitlines()[-1])]
    os.environ['ITEM_CACHE_SIZE'] = want
    descs = [A.from_json(d) for d in case['items']]
    return guarded_laws(descs, case['hist'], case['cache'])
