"""C11 -- declared logic extensions preserve validity."""
from __future__ import annotations

from hypothesis import HealthCheck, Phase, given, seed, settings
from hypothesis import strategies as st

from .. import ast as A
from .. import gen
from .. import prover
from .. import refsem as R
from ..attrib import attribute
from ..lib import get_logic

ID = 'C11'
LEVEL = 'exploration'
RULE = ('the declared (weaker, stronger) pairs are read from every logic\'s Meta.extension_of; arguments are drawn in the '
        'weaker logic\'s interpreted vocabulary and biased to validity by substituting random sentences for the letters '
        'of the schemata in pytableaux.examples (plus free random arguments). Oracle: valid in the weaker logic => not '
        'refuted by a limit-free open branch in the stronger one; for quantifier- and modality-free arguments => valid '
        'there. Non-trivial = the argument is valid in the weaker logic; distinct by (pair, argument). The rate of valid '
        'arguments per pair is reported.')
ASSUMPTIONS = ['relations between runs only; a wrong verdict is attributed to a locally inexact rule where possible (vf/attrib.py)']
MAX_STEPS = 250


def pairs():
    from ..lib import all_logic_names
    out = []
    for name in all_logic_names():
        for weaker in get_logic(name).Meta.extension_of:
            out.append((str(weaker), name))
    return sorted(out)


_SCHEMATA = None

_x, _y = A.var(0), A.var(1)
_a, _b, _c = A.const(0), A.const(1), A.const(2)
_F = lambda p: ('P', (0, 0, 1), (p,))
_G = lambda p: ('P', (1, 0, 1), (p,))
_H = lambda p, q: ('P', (2, 0, 2), (p, q))
_I = lambda p, q: ('P', 'Identity', (p, q))
_A, _B = A.atom(0), A.atom(1)
_N = lambda s: A.op('Necessity', s)
_P = lambda s: A.op('Possibility', s)
_L = lambda v, s: ('Q', 'Universal', v, s)
_X = lambda v, s: ('Q', 'Existential', v, s)
_and = lambda s, t: A.op('Conjunction', s, t)
_or = lambda s, t: A.op('Disjunction', s, t)

# standard valid forms of first-order / modal / identity reasoning (validity is *not* assumed: the
# weaker logic's own verdict decides whether a case is used)
EXTRA_SCHEMATA = [
    ('existential generalisation', [_F(_a)], _X(_x, _F(_x))),
    ('universal instantiation', [_L(_x, _F(_x))], _F(_a)),
    ('universal to existential', [_L(_x, _F(_x))], _X(_x, _F(_x))),
    ('universal distributes over &', [_L(_x, _and(_F(_x), _G(_x)))], _and(_L(_x, _F(_x)), _L(_x, _G(_x)))),
    ('existential distributes over V', [_X(_x, _or(_F(_x), _G(_x)))], _or(_X(_x, _F(_x)), _X(_x, _G(_x)))),
    ('existential V intro', [_or(_X(_x, _F(_x)), _X(_x, _G(_x)))], _X(_x, _or(_F(_x), _G(_x)))),
    ('no-F to all-not-F', [A.neg(_X(_x, _F(_x)))], _L(_x, A.neg(_F(_x)))),
    ('not-all to some-not', [A.neg(_L(_x, _F(_x)))], _X(_x, A.neg(_F(_x)))),
    ('nested quantifiers', [_X(_x, _L(_y, _H(_x, _y)))], _L(_y, _X(_x, _H(_x, _y)))),
    ('relational instantiation', [_L(_x, _L(_y, _H(_x, _y)))], _H(_a, _b)),
    ('EG with propositional letter', [_and(_F(_a), _A)], _X(_x, _and(_F(_x), _A))),
    ('box distributes over &', [_N(_and(_A, _B))], _and(_N(_A), _N(_B))),
    ('box & intro', [_N(_A), _N(_B)], _N(_and(_A, _B))),
    ('box to not-diamond-not', [_N(_A)], A.neg(_P(A.neg(_A)))),
    ('diamond distributes over V', [_P(_or(_A, _B))], _or(_P(_A), _P(_B))),
    ('K', [_N(A.op('MaterialConditional', _A, _B)), _N(_A)], _N(_B)),
    ('T', [_N(_A)], _A),
    ('T dual', [_A], _P(_A)),
    ('D', [_N(_A)], _P(_A)),
    ('4', [_N(_A)], _N(_N(_A))),
    ('4 dual', [_P(_P(_A))], _P(_A)),
    ('B', [_A], _N(_P(_A))),
    ('5', [_P(_A)], _N(_P(_A))),
    ('box diamond box', [_P(_N(_A))], _N(_A)),
    ('Barcan', [_L(_x, _N(_F(_x)))], _N(_L(_x, _F(_x)))),
    ('converse Barcan', [_N(_L(_x, _F(_x)))], _L(_x, _N(_F(_x)))),
    ('existential Barcan', [_X(_x, _P(_F(_x)))], _P(_X(_x, _F(_x)))),
    ('box EG', [_N(_F(_a))], _N(_X(_x, _F(_x)))),
    ('identity indiscernibility', [_I(_a, _b), _F(_a)], _F(_b)),
    ('identity symmetry', [_I(_a, _b)], _I(_b, _a)),
    ('identity transitivity', [_I(_a, _b), _I(_b, _c)], _I(_a, _c)),
    ('self identity', [], _I(_a, _a)),
    ('existence', [], ('P', 'Existence', (_a,))),
    ('identity under box', [_I(_a, _b), _N(_F(_a))], _N(_F(_a))),
]


# Probes: modal forms that hold in few or none of the logics.  Wherever a logic wrongly calls one valid (an unsound
# frame or witness rule: shared successors, merged worlds), the stronger logic of a declared pair refutes it.
PROBES = [
    ('G (.2)', [_P(_N(_A))], _N(_P(_A))),
    ('McKinsey', [_N(_P(_A))], _P(_N(_A))),
    ('two boxes behind two diamonds', [_P(_N(_A)), _P(_N(A.neg(_A)))], _B),
    ('box-diamond excluded middle', [], _or(_N(_P(_A)), _N(_P(A.neg(_A))))),
    ('diamond agglomeration', [_P(_A), _P(_B)], _P(_and(_A, _B))),
    ('box over V', [_N(_or(_A, _B))], _or(_N(_A), _N(_B))),
    ('diamond to box', [_P(_A)], _N(_A)),
    ('diamond box to box diamond under box', [_N(_P(_N(_A)))], _N(_N(_P(_A)))),
    ('two diamonds, one successor', [_P(_A), _P(A.neg(_A)), _N(_N(_B))], _P(_and(_N(_B), _A))),
    ('nested witnesses', [_P(_P(_A)), _P(_P(A.neg(_A)))], _P(_and(_P(_A), _P(A.neg(_A))))),
    ('existential agglomeration', [_X(_x, _F(_x)), _X(_x, _G(_x))], _X(_x, _and(_F(_x), _G(_x)))),
    ('existential to universal', [_X(_x, _F(_x))], _L(_x, _F(_x))),
    ('instance to universal', [_F(_a)], _L(_x, _F(_x))),
    ('two instances to universal', [_F(_a), _F(_b)], _L(_x, _F(_x))),
    ('negated instance to negated existential', [A.neg(_F(_a))], A.neg(_X(_x, _F(_x)))),
    ('negated instance and an instance to negated existential', [A.neg(_F(_a)), _F(_b)], A.neg(_X(_x, _F(_x)))),
    ('negated instance to universal negation', [A.neg(_F(_a))], _L(_x, A.neg(_F(_x)))),
    ('not all to none', [A.neg(_L(_x, _F(_x)))], A.neg(_X(_x, _F(_x)))),
    ('some to this one', [_X(_x, _F(_x))], _F(_a)),
    ('some not to this one not', [_X(_x, A.neg(_F(_x)))], A.neg(_F(_a))),
]


def schemata():
    global _SCHEMATA
    if _SCHEMATA is None:
        from pytableaux.examples import arguments
        _SCHEMATA = list(EXTRA_SCHEMATA) * 2
        for title, arg in arguments.items():
            prem = [A.from_lib(p) for p in arg.premises]
            con = A.from_lib(arg.conclusion)
            _SCHEMATA.append((title, prem, con))
    return _SCHEMATA


def fragment_ok(logic, s):
    if A.is_modal(s) and not R.is_modal(logic):
        return False
    if A.is_quantified(s) and not R.is_quantified(logic):
        return False
    return True


def subst_atoms(s, mp):
    t = s[0]
    if t == 'A':
        return mp.get(s, s)
    if t == 'P':
        return s
    if t == 'Q':
        return ('Q', s[1], s[2], subst_atoms(s[3], mp))
    return ('O', s[1], tuple(subst_atoms(c, mp) for c in s[2]))


def check_case(case):
    weaker, stronger = case['weaker'], case['stronger']
    _, prem, con = prover.case_args(case)
    info = dict(weak=None, strong=None)
    kw = dict(group=case.get('group', True), rank=case.get('rank', True), order=case.get('order', 0),
              max_steps=case.get('max_steps', MAX_STEPS))
    try:
        tw = prover.build(weaker, prem, con, **kw)
    except Exception:
        info['raised'] = True
        return [], info
    info['weak'] = prover.outcome(tw)
    if info['weak'] != 'valid':
        return [], info
    try:
        ts = prover.build(stronger, prem, con, **kw)
    except Exception:
        info['raised'] = True
        return [], info
    info['strong'] = prover.outcome(ts)
    propositional = not any(A.is_modal(s) or A.is_quantified(s) for s in (*prem, con))
    bad = info['strong'] == 'invalid' or (propositional and info['strong'] != 'valid')
    if not bad:
        return [], info
    tags = [t for t in attribute(tw, 'unsound') if t != 'unattributed'] + \
           [t for t in attribute(ts, 'incomplete') if t != 'unattributed']
    desc = (f'{A.show_arg(prem, con)}: valid in {weaker} but {info["strong"]} in {stronger}, although {stronger} is declared '
            f'to extend {weaker}')
    if tags:
        return [(f'C11|{t}', desc) for t in tags], info
    if propositional:
        # decide which side is wrong with the truth-table reference
        wv = R.prop_valid(weaker, prem, con)
        sv = R.prop_valid(stronger, prem, con)
        if wv and not sv:
            return [(f'C11|declaration|{weaker}->{stronger}', desc + ' (both verdicts agree with the truth tables: the declared relation itself fails)')], info
    return [(f'C11|unattributed|{weaker}->{stronger}', desc)], info


def shards(tier, seed_):
    ps = pairs()
    per = 150 if tier == 'quick' else 800
    return [dict(seed=seed_, pair=list(p), examples=per, idx=i) for i, p in enumerate(ps)]


def run_shard(shard, acc):
    weaker, stronger = shard['pair']
    prof = gen.Profile(w_atom=5, w_pred=3, w_ident=1, w_neg=4, w_assert=1, w_bin=6, w_modal=4, w_quant=3,
                       max_depth=2).for_logic(weaker)
    sch = [(t, p, c) for t, p, c in schemata() if all(fragment_ok(weaker, s) for s in (*p, c))]
    probes = [(t, p, c) for t, p, c in PROBES if all(fragment_ok(weaker, s) for s in (*p, c))]
    nvalid = [0]

    @seed(shard['seed'] * 1000 + shard['idx'])
    @settings(max_examples=shard['examples'], database=None, deadline=None, report_multiple_bugs=False,
              phases=[Phase.generate], suppress_health_check=list(HealthCheck))
    @given(st.data())
    def body(data):
        mode = data.draw(st.integers(0, 7))
        if mode == 0:
            prem, con = data.draw(gen.argument(prof, 2))
            title = 'random'
        else:
            pool = probes if (mode >= 6 and probes) else sch
            title, p0, c0 = pool[data.draw(st.integers(0, len(pool) - 1))]
            atoms = sorted(set().union(*(A.atoms(s) for s in (*p0, c0))))
            mp = {}
            for a in atoms:
                if data.draw(st.integers(0, 2)) == 0:
                    continue
                mp[a] = data.draw(gen.sentence(prof, data.draw(st.integers(0, 2))))
            prem = [subst_atoms(s, mp) for s in p0]
            con = subst_atoms(c0, mp)
        case = prover.mk_case(weaker, prem, con, group=data.draw(st.booleans()), rank=data.draw(st.booleans()),
                              order=data.draw(st.integers(0, 3)), max_steps=MAX_STEPS)
        case['weaker'], case['stronger'] = weaker, stronger
        res, info = check_case(case)
        if info.get('raised'):
            acc.count('build-raised (see C09)')
            return
        valid = info['weak'] == 'valid'
        if valid:
            nvalid[0] += 1
        if info['weak'] == 'limited' or info['strong'] == 'limited':
            acc.inconclusive += 1
        acc.case((weaker, stronger, case['premises'], case['conclusion']), nontrivial=valid,
                 classes=('weaker:' + str(info['weak']), 'random' if not mode else 'probe' if (mode >= 6 and probes) else 'schema'),
                 sample=(f'{weaker} -> {stronger}: {A.show_arg(prem, con)} ({title}): {info["weak"]} / {info["strong"]}' if valid else None))
        for fp, d in res:
            acc.finding(fp, case, d)
    body()
    acc.extra.setdefault('valid_in_weaker_per_pair', [])
    acc.extra['valid_in_weaker_per_pair'].append(f'{weaker}->{stronger}:{nvalid[0]}')
    acc.extra['pairs'] = acc.extra.get('pairs', 0) + 1


def replay(case):
    return check_case(case)[0]


def shrink_candidates(case):
    for c in prover.argument_shrinks(case):
        yield c
