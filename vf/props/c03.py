"""C03 -- propositional arguments are decided exactly, without limits."""
from __future__ import annotations

import os
from itertools import product

from hypothesis import HealthCheck, Phase, given, seed, settings
from hypothesis import strategies as st

from .. import ast as A
from .. import gen
from .. import prover
from .. import refsem as R
from ..attrib import attribute

ID = 'C03'
LEVEL = 'exploration'
EXHAUSTIVE = {'quick': True, 'thorough': True}
RULE = ('exhaustive part: every argument with 0-1 premises whose sentences are atoms {A,B}, depth-1 compounds of the 8 '
        'truth-functional operators, or negations of the binary ones (54 sentences, 2970 arguments) x every base logic and K '
        '(quick tier: the modal extensions, which share their propositional rules with the base, get half of the 930 depth-1 '
        'arguments; thorough: all 57 logics get all 2970 plus every premise-free argument with a conclusion of depth <= 2), built with default options and no step limit (guard 10000); '
        'random part: Hypothesis arguments with <= 4 atoms, depth <= 3, <= 3 premises (step guard 600 => inconclusive) x {group optim} x {rank optim}. '
        'Oracle: reference truth-table enumeration (valid iff no assignment designates all premises and not the '
        'conclusion); branch-level exactness (an assignment refutes the argument iff it satisfies all nodes of some open '
        'branch iff it satisfies the literals of some open branch); completed, not premature, no quit-flag node. Non-trivial = the argument contains a binary '
        'operator; distinct by (logic, argument, options).')
ASSUMPTIONS = [
    'vf/refsem.py tables are the documented ones (C07 decides that separately)',
    'FDE family: lattice reference; a disagreement traced to the N/B table cells cannot occur here because the '
    'tableau rules, not the evaluator, produce the verdict',
]

GUARD = 10000
ATOMS2 = (A.atom(0), A.atom(1))
UN = ('Negation', 'Assertion')
BIN = gen.BIN_OPS


def depth1(atoms=ATOMS2):
    out = list(atoms)
    out += [A.op(o, a) for o in UN for a in atoms]
    out += [A.op(o, a, b) for o in BIN for a in atoms for b in atoms]
    return out


def depth2(atoms=ATOMS2):
    d1 = depth1(atoms)
    out = list(atoms)
    out += [A.op(o, a) for o in UN for a in d1]
    out += [A.op(o, a, b) for o in BIN for a in d1 for b in d1]
    return out


def depth1_negated(atoms=ATOMS2):
    "depth-1 sentences plus the negations of the binary ones (so that every Negated... rule is reached from the trunk)"
    d1 = depth1(atoms)
    return d1 + [A.neg(s) for s in d1 if s[0] == 'O' and A.OPS[s[1]] == 2]


def exhaustive_args(tier, logic):
    """Base logics (and every logic in the thorough tier): 0-1 premises and conclusion from the 54-sentence
    universe (2970 arguments).  Modal extensions in the quick tier share their propositional rules with the base
    logic; they get every second argument of the 930-argument depth-1 universe."""
    full = tier == 'thorough' or R.frame_of(logic) is None or logic == 'K'
    if full:
        u = depth1_negated()
        for c in u:
            yield (), c
            for p in u:
                yield (p,), c
    else:
        d1 = depth1()
        i = 0
        for c in d1:
            for p in [None] + d1:
                i += 1
                if i % 2:
                    yield (() if p is None else (p,)), c
    if tier == 'thorough':
        seen = set(depth1_negated())
        for c in depth2():
            if c not in seen:
                yield (), c


def shards(tier, seed_):
    names = sorted(R.LOGICS)
    out = []
    nchunks = 4 if tier == 'quick' else 16
    for name in names:
        for k in range(nchunks):
            out.append(dict(kind='exh', logic=name, tier=tier, k=k, n=nchunks))
    nrand = 16 if tier == 'quick' else 64
    for i in range(nrand):
        out.append(dict(kind='rand', shard=i, seed=seed_, tier=tier,
                        examples=300 if tier == 'quick' else 1500))
    return out


def check_case(case):
    """Returns (findings, info).  findings: list of (fingerprint, detail)."""
    logic, prem, con = prover.case_args(case)
    group = case.get('group', True)
    rank = case.get('rank', True)
    order = case.get('order', 0)
    max_steps = case.get('max_steps', GUARD)
    info = dict(binary=any(A.OPS[o] == 2 for s in (*prem, con) for o in A.operators(s)))
    try:
        tab = prover.build(logic, prem, con, group=group, rank=rank, order=order, max_steps=max_steps)
    except Exception as e:
        return [(f'C03|raises|{R.base_of(logic)}*|{type(e).__name__}', f'{prover.case_str(case)}: build raised {e!r}')], info
    want_valid = R.prop_valid(logic, prem, con)
    info['valid'] = want_valid
    info['steps'] = len(tab.history)
    out = []
    fam = R.base_of(logic) + '*'
    if tab.premature or not tab.completed:
        if case.get('guard_is_inconclusive'):
            info['inconclusive'] = True
            return [], info
        out.append((f'C03|no-termination|{fam}',
                    f'{prover.case_str(case)}: not completed within {max_steps} steps'))
        return out, info
    if prover.any_quit_flag(tab):
        out.append((f'C03|quit-flag|{fam}', f'{prover.case_str(case)}: a limit flag node appears'))
    # branch-level exactness: a valuation refutes the argument iff it satisfies every node of some open branch
    # iff it satisfies the literals of some open branch (lost or spurious cases are found even when another open
    # branch masks them in the verdict)
    atoms = R.prop_atoms([*prem, con])
    if len(atoms) <= 4 and not out:
        from itertools import product as _product
        from ..attrib import satisfied
        D = R.designated(logic)
        branches = []
        for b in tab.open:
            nodes = [(A.from_lib(n['sentence']), n.get('designated')) for n in b if n.get('sentence') is not None]
            lits = [(x, d) for x, d in nodes if x[0] in 'AP' or (x[0] == 'O' and x[1] == 'Negation' and x[2][0][0] in 'AP')]
            branches.append((nodes, lits))
        for combo in _product(R.values(logic), repeat=len(atoms)):
            v = dict(zip(atoms, combo))
            refutes = all(R.prop_value(logic, p, v) in D for p in prem) and R.prop_value(logic, con, v) not in D
            full = any(all(satisfied(logic, R.prop_value(logic, x, v), d) for x, d in nodes) for nodes, _ in branches)
            lit = any(all(satisfied(logic, R.prop_value(logic, x, v), d) for x, d in lits) for _, lits in branches)
            vs = ', '.join(f'{A.show(k)}={val}' for k, val in v.items())
            if refutes and not full:
                for tag in attribute(tab, 'unsound'):
                    out.append((f'C03|unsound|{fam}|{tag}',
                                f'{prover.case_str(case)}: the countermodel {vs} satisfies no open branch (a case was lost)'))
                break
            if lit and not refutes:
                for tag in attribute(tab, 'incomplete'):
                    out.append((f'C03|incomplete|{fam}|{tag}',
                                f'{prover.case_str(case)}: {vs} satisfies the literals of an open branch but does not refute the argument'))
                break
    if tab.valid is True and not want_valid:
        cm = next(R.prop_countermodels(logic, prem, con))
        cms = ', '.join(f'{A.show(k)}={v}' for k, v in cm.items())
        for tag in attribute(tab, 'unsound'):
            out.append((f'C03|unsound|{fam}|{tag}',
                        f'{prover.case_str(case)}: reported valid, countermodel {cms}'))
    elif tab.valid is not True and want_valid:
        for tag in attribute(tab, 'incomplete'):
            out.append((f'C03|incomplete|{fam}|{tag}',
                        f'{prover.case_str(case)}: reported invalid, but no assignment of {R.values(logic)} is a countermodel'))
    return out, info


def run_exh(shard, acc):
    logic = shard['logic']
    for i, (prem, con) in enumerate(exhaustive_args(shard['tier'], logic)):
        if i % shard['n'] != shard['k']:
            continue
        case = prover.mk_case(logic, prem, con)
        res, info = check_case(case)
        nontriv = info['binary']
        cls = ['exhaustive', 'ref-valid' if info.get('valid') else 'ref-invalid']
        acc.case((logic, case['premises'], case['conclusion']), nontrivial=nontriv, classes=cls,
                 sample=prover.case_str(case) + f' => {"valid" if info.get("valid") else "invalid"} in {info.get("steps")} steps')
        for fp, detail in res:
            acc.finding(fp, case, detail)


def run_rand(shard, acc):
    names = sorted(R.LOGICS)
    prof = gen.Profile(natoms=4, max_depth=3, w_atom=5, w_neg=4, w_assert=1, w_bin=10)

    @seed(shard['seed'] * 1000 + shard['shard'])
    @settings(max_examples=shard['examples'], database=None, deadline=None, derandomize=False,
              report_multiple_bugs=False, phases=[Phase.generate],
              suppress_health_check=list(HealthCheck))
    @given(st.data())
    def body(data):
        logic = names[data.draw(st.integers(0, len(names) - 1))]
        prem, con = data.draw(gen.argument(prof, 3))
        group = data.draw(st.booleans())
        rank = data.draw(st.booleans())
        order = data.draw(st.integers(0, 7))
        case = prover.mk_case(logic, prem, con, group=group, rank=rank, order=order,
                              max_steps=600, guard_is_inconclusive=True)
        res, info = check_case(case)
        if info.get('inconclusive'):
            acc.inconclusive += 1
        cls = ['random', 'ref-valid' if info.get('valid') else 'ref-invalid',
               f'group={"on" if group else "off"},rank={"on" if rank else "off"}']
        acc.case((logic, case['premises'], case['conclusion'], group, rank, order),
                 nontrivial=info['binary'], classes=cls, sample=prover.case_str(case))
        for fp, detail in res:
            acc.finding(fp, case, detail)
    body()


def run_shard(shard, acc):
    if shard['kind'] == 'exh':
        run_exh(shard, acc)
    else:
        run_rand(shard, acc)


def replay(case):
    return check_case(case)[0]


def shrink_candidates(case):
    yield from prover.argument_shrinks(case)
