"""C03 -- propositional arguments are decided exactly, without limits."""
from __future__ import annotations

import os
from itertools import product

from hypothesis import HealthCheck, Phase, given, seed, settings
from hypothesis import strategies as st

from .. import ast as A
from .. import gen
from .. import prover
from .. import refsem as R
from ..attrib import attribute

ID = 'C03'
LEVEL = 'exploration'
EXHAUSTIVE = {'quick': True, 'thorough': True}
RULE = ('exhaustive part: every argument with 0-1 premises whose sentences have depth <= 1 over atoms {A,B} and the 8 '
        'truth-functional operators (930 arguments; thorough adds every premise-free argument with a conclusion of '
        'depth <= 2: 5462) x every registered logic, built with default options and no step limit (guard 10000); '
        'random part: Hypothesis arguments with <= 4 atoms, depth <= 3, <= 3 premises (step guard 600 => inconclusive) x {group optim} x {rank optim}. '
        'Oracle: reference truth-table enumeration (valid iff no assignment designates all premises and not the '
        'conclusion) and: completed, not premature, no quit-flag node. Non-trivial = the argument contains a binary '
        'operator; distinct by (logic, argument, options).')
ASSUMPTIONS = [
    'vf/refsem.py tables are the documented ones (C07 decides that separately)',
    'FDE family: lattice reference; a disagreement traced to the N/B table cells cannot occur here because the '
    'tableau rules, not the evaluator, produce the verdict',
]

GUARD = 10000
ATOMS2 = (A.atom(0), A.atom(1))
UN = ('Negation', 'Assertion')
BIN = gen.BIN_OPS


def depth1(atoms=ATOMS2):
    out = list(atoms)
    out += [A.op(o, a) for o in UN for a in atoms]
    out += [A.op(o, a, b) for o in BIN for a in atoms for b in atoms]
    return out


def depth2(atoms=ATOMS2):
    d1 = depth1(atoms)
    out = list(atoms)
    out += [A.op(o, a) for o in UN for a in d1]
    out += [A.op(o, a, b) for o in BIN for a in d1 for b in d1]
    return out


def exhaustive_args(tier):
    d1 = depth1()
    for c in d1:
        yield (), c
        for p in d1:
            yield (p,), c
    if tier == 'thorough':
        seen = set(d1)
        for c in depth2():
            if c not in seen:
                yield (), c


def shards(tier, seed_):
    names = sorted(R.LOGICS)
    out = []
    nchunks = 4 if tier == 'quick' else 16
    for name in names:
        for k in range(nchunks):
            out.append(dict(kind='exh', logic=name, tier=tier, k=k, n=nchunks))
    nrand = 16 if tier == 'quick' else 64
    for i in range(nrand):
        out.append(dict(kind='rand', shard=i, seed=seed_, tier=tier,
                        examples=300 if tier == 'quick' else 1500))
    return out


def check_case(case):
    """Returns (findings, info).  findings: list of (fingerprint, detail)."""
    logic, prem, con = prover.case_args(case)
    group = case.get('group', True)
    rank = case.get('rank', True)
    order = case.get('order', 0)
    max_steps = case.get('max_steps', GUARD)
    info = dict(binary=any(A.OPS[o] == 2 for s in (*prem, con) for o in A.operators(s)))
    try:
        tab = prover.build(logic, prem, con, group=group, rank=rank, order=order, max_steps=max_steps)
    except Exception as e:
        return [(f'C03|raises|{R.base_of(logic)}*|{type(e).__name__}', f'{prover.case_str(case)}: build raised {e!r}')], info
    want_valid = R.prop_valid(logic, prem, con)
    info['valid'] = want_valid
    info['steps'] = len(tab.history)
    out = []
    fam = R.base_of(logic) + '*'
    if tab.premature or not tab.completed:
        if case.get('guard_is_inconclusive'):
            info['inconclusive'] = True
            return [], info
        out.append((f'C03|no-termination|{fam}',
                    f'{prover.case_str(case)}: not completed within {max_steps} steps'))
        return out, info
    if prover.any_quit_flag(tab):
        out.append((f'C03|quit-flag|{fam}', f'{prover.case_str(case)}: a limit flag node appears'))
    if tab.valid is True and not want_valid:
        cm = next(R.prop_countermodels(logic, prem, con))
        cms = ', '.join(f'{A.show(k)}={v}' for k, v in cm.items())
        for tag in attribute(tab, 'unsound'):
            out.append((f'C03|unsound|{fam}|{tag}',
                        f'{prover.case_str(case)}: reported valid, countermodel {cms}'))
    elif tab.valid is not True and want_valid:
        for tag in attribute(tab, 'incomplete'):
            out.append((f'C03|incomplete|{fam}|{tag}',
                        f'{prover.case_str(case)}: reported invalid, but no assignment of {R.values(logic)} is a countermodel'))
    return out, info


def run_exh(shard, acc):
    logic = shard['logic']
    for i, (prem, con) in enumerate(exhaustive_args(shard['tier'])):
        if i % shard['n'] != shard['k']:
            continue
        case = prover.mk_case(logic, prem, con)
        res, info = check_case(case)
        nontriv = info['binary']
        cls = ['exhaustive', 'ref-valid' if info.get('valid') else 'ref-invalid']
        acc.case((logic, case['premises'], case['conclusion']), nontrivial=nontriv, classes=cls,
                 sample=prover.case_str(case) + f' => {"valid" if info.get("valid") else "invalid"} in {info.get("steps")} steps')
        for fp, detail in res:
            acc.finding(fp, case, detail)


def run_rand(shard, acc):
    names = sorted(R.LOGICS)
    prof = gen.Profile(natoms=4, max_depth=3, w_atom=5, w_neg=4, w_assert=1, w_bin=10)

    @seed(shard['seed'] * 1000 + shard['shard'])
    @settings(max_examples=shard['examples'], database=None, deadline=None, derandomize=False,
              report_multiple_bugs=False, phases=[Phase.generate],
              suppress_health_check=list(HealthCheck))
    @given(st.data())
    def body(data):
        logic = names[data.draw(st.integers(0, len(names) - 1))]
        prem, con = data.draw(gen.argument(prof, 3))
        group = data.draw(st.booleans())
        rank = data.draw(st.booleans())
        order = data.draw(st.integers(0, 7))
        case = prover.mk_case(logic, prem, con, group=group, rank=rank, order=order,
                              max_steps=600, guard_is_inconclusive=True)
        res, info = check_case(case)
        if info.get('inconclusive'):
            acc.inconclusive += 1
        cls = ['random', 'ref-valid' if info.get('valid') else 'ref-invalid',
               f'group={"on" if group else "off"},rank={"on" if rank else "off"}']
        acc.case((logic, case['premises'], case['conclusion'], group, rank, order),
                 nontrivial=info['binary'], classes=cls, sample=prover.case_str(case))
        for fp, detail in res:
            acc.finding(fp, case, detail)
    body()


def run_shard(shard, acc):
    if shard['kind'] == 'exh':
        run_exh(shard, acc)
    else:
        run_rand(shard, acc)


def replay(case):
    return check_case(case)[0]


def shrink_candidates(case):
    yield from prover.argument_shrinks(case)
