"""C19 -- every finished tableau renders, deterministically and faithfully."""
from __future__ import annotations

import re

from hypothesis import HealthCheck, Phase, given, seed, settings
from hypothesis import strategies as st

from .. import ast as A
from .. import gen
from .. import prover
from .. import refsem as R

ID = 'C19'
LEVEL = 'exploration'
RULE = ('finished tableaux (valid, invalid, step-limited, built with and without models) of Hypothesis arguments x logic, rendered '
        'with every registered writer format x {polish, standard} x drawn writer options. Oracle: no exception; two renderings '
        'identical; plain text: the lines, read in pre-order of tab.tree, are exactly the node tokens of each structure in branch '
        'order (sentence written by an independent LexWriter call, " wN", " [+]"/" [-]", "wiRwj", tick mark, closure mark), so the '
        'multiset of tokens equals the tree\'s distinct nodes and there is one "(x)" per closed branch; html / latex: every distinct '
        'sentence\'s rendering occurs in the output and the number of closure marks equals the number of closed branches. '
        'Non-trivial = tableau with >= 2 branches and an access or flag node; distinct by (logic, argument, limit).')
ASSUMPTIONS = ['tab.tree is the structure rendered (its agreement with the branches is C16\'s business)',
               'the LexWriter is trusted for single sentences (C12)']

FORMATS = ('text', 'html', 'latex')
NOTATIONS = ('polish', 'standard')


def structures(tree):
    yield tree
    for c in tree.children:
        yield from structures(c)


def node_token(lw, n):
    parts = []
    s = n.get('sentence')
    if s is not None:
        parts.append(lw(s))
    w = n.get('world')
    if w is not None:
        parts.append(f' w{w}')
    d = n.get('designated')
    if d is True:
        parts.append(' [+]')
    elif d is False:
        parts.append(' [-]')
    if n.get('world1') is not None and n.get('world2') is not None:
        parts.append(f'w{n["world1"]}Rw{n["world2"]}')
    if n.get('ellipsis'):
        parts.append(' ...')
    if getattr(n, 'ticked', False):
        parts.append(' *')
    parts.append('(x)' if n.get('flag') == 'closure' else '; ')
    return ''.join(parts)


def check_text(tab, notation, opts, tag, out, desc, w=None):
    from pytableaux.lang import LexWriter
    from pytableaux.proof import TabWriter
    if w is None:
        w = TabWriter('text', notation, **opts)
    text = w(tab)
    if text != w(tab) or text != TabWriter('text', notation, **opts)(tab):
        out.append((f'C19|nondeterministic|text', f'{desc}: two text renderings differ'))
    lw = LexWriter(notation, 'text', **opts)
    lines = [l for l in text.split('\n')]
    content = []
    for l in lines:
        body = l.lstrip(' |')
        if body:
            content.append(body)
    structs = list(structures(tab.tree))
    expected = []
    for s in structs:
        line = ('-- ' if s.depth else '') + ''.join(node_token(lw, n) for n in s.nodes) + (' .' if s.children else '')
        expected.append(line.lstrip(' |') if line.strip() else line)
    exp_nonempty = [e for e in expected if e.strip(' |')]
    if content != [e.lstrip(' |') for e in exp_nonempty]:
        # first difference
        k = next((i for i, (a, b) in enumerate(zip(content, exp_nonempty)) if a != b), min(len(content), len(exp_nonempty)))
        got = content[k] if k < len(content) else '<missing>'
        want = exp_nonempty[k] if k < len(exp_nonempty) else '<none>'
        out.append((f'C19|text-content|{tag}', f'{desc} ({notation}): structure line {k} is {got!r}, expected {want!r}'))
    nclosed = sum(1 for b in tab if b.closed)
    if text.count('(x)') != nclosed:
        out.append((f'C19|text-closure-marks', f'{desc}: {text.count("(x)")} closure marks for {nclosed} closed branches'))
    return text


def check_markup(fmt, tab, notation, opts, out, desc, w=None):
    from pytableaux.lang import LexWriter
    from pytableaux.proof import TabWriter
    if w is None:
        w = TabWriter(fmt, notation, **opts)
    text = w(tab)
    if text != w(tab):
        out.append((f'C19|nondeterministic|{fmt}', f'{desc}: two {fmt} renderings differ'))
    lwopts = {k: v for k, v in opts.items() if k in ('drop_parens', 'identity_infix', 'max_infix')}
    lw = LexWriter(notation, fmt, **lwopts)
    seen = set()
    for b in tab:
        for n in b:
            s = n.get('sentence')
            if s is None or s in seen:
                continue
            seen.add(s)
            r = lw(s)
            if r not in text:
                out.append((f'C19|{fmt}-sentence-missing', f'{desc} ({notation}): rendering {r!r} of a node sentence does not occur in the {fmt} output'))
                return
    # markers: one per distinct node carrying the marking (the tree shares common prefixes)
    from pytableaux.lang import Marking
    nodes = [n for st_ in structures(tab.tree) for n in st_.nodes]
    want = {
        ('designation', True): sum(1 for n in nodes if n.get('designated') is True),
        ('designation', False): sum(1 for n in nodes if n.get('designated') is False),
        ('flag', 'closure'): sum(1 for n in nodes if n.get('flag') == 'closure'),
        ('flag', 'quit'): sum(1 for n in nodes if n.get('flag') == 'quit'),
    }
    for (kind, val), cnt in want.items():
        marker = lw.strings[Marking.tableau, kind, val]
        got = text.count(marker)
        if got != cnt:
            out.append((f'C19|{fmt}-marker-count|{kind}:{val}', f'{desc} ({notation}): {got} occurrences of the {kind} {val} '
                        f'marker {marker!r}, {cnt} nodes carry it'))
    nclosed = sum(1 for b in tab if b.closed)
    if want[('flag', 'closure')] != nclosed:
        out.append((f'C19|tree-closure-nodes', f'{desc}: tree has {want[("flag", "closure")]} closure nodes for {nclosed} closed branches'))
    return text


def check_case(case):
    from pytableaux.proof import TabWriter
    logic, prem, con = prover.case_args(case)
    try:
        tab = prover.build(logic, prem, con, group=case['group'], rank=case['rank'], order=case['order'],
                           max_steps=case['max_steps'], models=case['models'])
    except Exception:
        return [], dict(raised=True)
    info = dict(kind=prover.outcome(tab) if not tab.premature else 'step-limited', branches=len(tab))
    info['nontrivial'] = len(tab) >= 2 and any(n.get('world1') is not None or n.get('flag') for b in tab for n in b)
    if tab.tree is None:
        return [], info
    out = []
    desc = prover.case_str(case) + f' max_steps={case["max_steps"]}'
    fam = R.base_of(logic) + '*'
    # all writers are built first and used afterwards (as a caller that keeps its writers would): a writer must
    # not depend on which other writers exist
    writers = {}
    for fmt in FORMATS:
        for notation in NOTATIONS:
            opts = dict(case['opts'].get(fmt, {}))
            if notation == 'standard':
                opts.update(case['opts'].get('standard', {}))
            try:
                writers[fmt, notation] = (TabWriter(fmt, notation, **opts), opts)
            except Exception as e:
                out.append((f'C19|writer-construct-raises|{fmt}|{type(e).__name__}', f'{desc}: TabWriter({fmt!r}, {notation!r}, **{opts}) raised {e!r}'))
    first = {}
    for fmt in FORMATS:
        for notation in NOTATIONS:
            if (fmt, notation) not in writers:
                continue
            w, opts = writers[fmt, notation]
            try:
                if fmt == 'text':
                    first[fmt, notation] = check_text(tab, notation, opts, fam, out, desc, w)
                else:
                    first[fmt, notation] = check_markup(fmt, tab, notation, opts, out, desc, w)
            except Exception as e:
                import traceback
                tb = traceback.extract_tb(e.__traceback__)
                where = next((f'{f.filename.rsplit("/", 1)[-1]}:{f.name}' for f in reversed(tb) if '/pytableaux/' in f.filename), 'harness')
                if where == 'harness':
                    raise
                out.append((f'C19|raises|{fmt}|{type(e).__name__}|{where}', f'{desc}: TabWriter({fmt!r}, {notation!r}, **{opts}) raised {type(e).__name__}: {e}'))
    # second round, after every other writer has been used in between: same writer, same tableau, same text
    for key in case.get('second_round') or sorted(first):
        key = tuple(key)
        if first.get(key) is None:
            continue
        try:
            again = writers[key][0](tab)
        except Exception as e:
            out.append((f'C19|raises|{key[0]}|{type(e).__name__}|second-round', f'{desc}: second rendering with the same {key} writer raised {e!r}'))
            continue
        if again != first[key]:
            out.append((f'C19|nondeterministic|{key[0]}', f'{desc}: the {key[1]} {key[0]} writer renders the same tableau differently after '
                        f'other writers have been used in between'))
    seen = set()
    uniq = []
    for fp, d in out:
        if fp not in seen:
            seen.add(fp)
            uniq.append((fp, d))
    return uniq, info


def shards(tier, seed_):
    n = 16 if tier == 'quick' else 64
    return [dict(seed=seed_, shard=i, examples=110 if tier == 'quick' else 700) for i in range(n)]


def run_shard(shard, acc):
    prof = gen.Profile(w_atom=5, w_pred=4, w_ident=2, w_neg=4, w_assert=1, w_bin=8, w_modal=5, w_quant=3, max_depth=3,
                       consts=(A.const(0), A.const(1, 2), A.const(3, 12)), natoms=5,
                       preds=((0, 0, 1), (1, 0, 2), (2, 1, 3)))

    @seed(shard['seed'] * 1000 + shard['shard'])
    @settings(max_examples=shard['examples'], database=None, deadline=None, report_multiple_bugs=False,
              phases=[Phase.generate], suppress_health_check=list(HealthCheck))
    @given(st.data())
    def body(data):
        logic = data.draw(gen.logic_name())
        prem, con = data.draw(gen.argument(prof.for_logic(logic), 3))
        case = prover.mk_case(logic, prem, con, group=data.draw(st.booleans()), rank=data.draw(st.booleans()),
                              order=data.draw(st.integers(0, 3)))
        case['max_steps'] = data.draw(st.sampled_from([60, 60, 60, 1, 3, 8]))
        case['models'] = data.draw(st.booleans())
        case['opts'] = dict(
            standard=dict(drop_parens=data.draw(st.booleans()), identity_infix=data.draw(st.booleans()),
                          max_infix=data.draw(st.sampled_from([0, 0, 2, 3, 5]))),
            html=dict(fulldoc=data.draw(st.booleans()), inline_css=data.draw(st.booleans()), wrapper=data.draw(st.booleans())),
            latex=dict(fulldoc=data.draw(st.booleans())))
        case['second_round'] = [list(k) for k in data.draw(st.permutations([(f, n) for f in FORMATS for n in NOTATIONS]))]
        res, info = check_case(case)
        if info.get('raised'):
            acc.count('build-raised (see C09)')
            return
        acc.case((logic, case['premises'], case['conclusion'], case['max_steps'], case['models']),
                 nontrivial=info['nontrivial'], classes=('tableau:' + info['kind'],),
                 sample=prover.case_str(case) + f' ({info["kind"]}, {info["branches"]} branches) x {len(FORMATS) * len(NOTATIONS)} writers')
        acc.extra['renderings'] = acc.extra.get('renderings', 0) + len(FORMATS) * len(NOTATIONS)
        for fp, d in res:
            acc.finding(fp, case, d)
    body()


def replay(case):
    return check_case(case)[0]


def shrink_candidates(case):
    yield from prover.argument_shrinks(case)
