"""C20 -- the published description of a model says what the model evaluates."""
from __future__ import annotations

from itertools import product

from hypothesis import HealthCheck, Phase, given, seed, settings
from hypothesis import strategies as st

from .. import ast as A
from .. import gen
from .. import prover
from .. import refsem as R
from . import c08

ID = 'C20'
LEVEL = 'exploration'
RULE = ('models from two sources: (1) built directly through the model API from drawn facts (the C08 generator), (2) read by the '
        'library from the open branches of random invalid arguments. Oracle on get_data(): the listed worlds and access pairs are '
        'exactly the model\'s (frames, R); per world every sentence letter / uninterpreted sentence of the model is listed with the '
        'value value_of gives there; for every predicate and every tuple over the model\'s constants the tuple is in the exported '
        'extension iff the predication evaluates to T or B, in the anti-extension iff to F or B; lists sorted; a second call gives '
        'equal data. Non-trivial = a model with a predicate and >= 2 constants; distinct by (source, logic, facts / argument).')
ASSUMPTIONS = ['the library\'s own value_of is the reference here (its correctness is C08\'s business): the property is agreement between export and evaluator']


def lex_key(x):
    "independent total order on exported lexical items: by the library's documented sort_tuple"
    return tuple(x.sort_tuple)


def frame_checks(name, model, w, fdata, consts, fam):
    out = []
    modal = R.is_modal(name)
    kw = dict(world=w) if modal else {}
    frame = model.frames[w]
    for key, store in (('Atomics', frame.atomics), ('Opaques', frame.opaques)):
        vals = fdata[key]['values']
        listed = [v['input'] for v in vals]
        if sorted(listed, key=lex_key) != listed:
            out.append((f'C20|unsorted|{fam}|{key}', f'{name} w{w}: {key} not sorted: {[str(s) for s in listed]}'))
        if set(listed) != set(store):
            out.append((f'C20|missing-sentence|{fam}|{key}', f'{name} w{w}: {key} lists {[str(s) for s in listed]} but the frame has {[str(s) for s in store]}'))
        for v in vals:
            ev = model.value_of(v['input'], **kw)
            if str(v['output']) != str(ev):
                out.append((f'C20|value|{fam}|{key}', f'{name} w{w}: {key} gives {v["input"]} = {v["output"]} but value_of = {ev}'))
    pvals = fdata['Predicates']['values']
    many = len(R.values(name)) > 2
    ext, anti = {}, {}
    order = []
    for d in pvals:
        sym = d['symbol']
        for io in d['values']:
            pred = io['input']
            tuples = list(io['output'])
            if sorted(tuples, key=lambda t: tuple(lex_key(c) for c in t)) != tuples:
                out.append((f'C20|unsorted|{fam}|extension', f'{name} w{w}: tuples of {pred} not sorted'))
            if sym.endswith('-'):
                anti[pred] = set(tuples)
            else:
                ext[pred] = set(tuples)
                order.append(pred)
    if sorted(order, key=lex_key) != order:
        out.append((f'C20|unsorted|{fam}|predicates', f'{name} w{w}: predicates not sorted'))
    preds = set(frame.predicates)
    if set(ext) != preds:
        out.append((f'C20|missing-predicate|{fam}', f'{name} w{w}: exported predicates {[str(p) for p in ext]} != frame predicates {[str(p) for p in preds]}'))
    for pred in preds & set(ext):
        for params in product(consts, repeat=pred.arity):
            try:
                v = str(model.value_of(pred(params), **kw))
            except Exception as e:
                out.append((f'C20|value-raises|{fam}', f'{name}: value_of({pred(params)}) raised {e!r}'))
                continue
            in_ext = params in ext[pred]
            if in_ext != (v in 'TB'):
                out.append((f'C20|extension|{fam}', f'{name} w{w}: {pred(params)} evaluates to {v} but the tuple is '
                            f'{"in" if in_ext else "not in"} the exported extension'))
            if many:
                in_anti = params in anti.get(pred, set())
                if in_anti != (v in 'FB'):
                    out.append((f'C20|anti-extension|{fam}', f'{name} w{w}: {pred(params)} evaluates to {v} but the tuple is '
                                f'{"in" if in_anti else "not in"} the exported anti-extension'))
    return out


def check_model(name, model, branch=None):
    fam = R.base_of(name) + '*'
    out = []
    try:
        data = model.get_data()
        data2 = model.get_data()
    except Exception as e:
        return [(f'C20|get_data-raises|{fam}|{type(e).__name__}', f'{name}: get_data() raised {e!r}')], False
    if c08.norm_data(data) != c08.norm_data(data2):
        out.append((f'C20|nondeterministic|{fam}', f'{name}: two get_data() calls differ'))
    consts = sorted(model.constants, key=lex_key)
    nontrivial = False
    if branch is not None:
        # a model read from a branch knows every uninterpreted sentence that occurs there as a literal (plain or negated):
        # the export must list it at its world, whatever value it has
        from pytableaux.lang import Operated, Operator
        want = {}
        for n in branch:
            x = n.get('sentence')
            if x is None:
                continue
            if type(x) is Operated and x.operator is Operator.Negation:
                x = x.lhs
            try:
                if model.is_sentence_opaque(x):
                    want.setdefault(n.get('world') or 0, set()).add(x)
            except Exception:
                pass
        if want:
            fr = data['Frames']['values'] if R.is_modal(name) else None
            for w, sents in sorted(want.items()):
                try:
                    fdata = next(f['value'] for f, ww in zip(fr, data['Worlds']['values']) if ww == w) if fr is not None else data
                    listed = {v['input'] for v in fdata['Opaques']['values']}
                except Exception:
                    listed = set()
                miss = sorted(str(x) for x in sents - listed)
                if miss:
                    out.append((f'C20|missing-sentence|{fam}|Opaques-of-branch', f'{name} w{w}: the branch has the uninterpreted literal(s) {miss}, '
                                f'which the export does not list (it lists {sorted(map(str, listed))})'))
    if R.is_modal(name):
        worlds = data['Worlds']['values']
        pairs = [tuple(p) for p in data['Access']['values']]
        real_pairs = sorted((a, b) for a, seen in model.R.items() for b in seen)
        real_worlds = sorted(set(model.frames) | set(model.R) | {x for p in real_pairs for x in p})
        if list(worlds) != real_worlds:
            out.append((f'C20|worlds|{(R.frame_of(name) or "")}*', f'{name}: exported worlds {list(worlds)} but the model has worlds {real_worlds} (R = {real_pairs})'))
        if pairs != real_pairs:
            out.append((f'C20|access|{(R.frame_of(name) or "")}*', f'{name}: exported access {pairs} but R = {real_pairs}'))
        frames = data['Frames']['values']
        for w, fd in zip(worlds, frames):
            out += frame_checks(name, model, w, fd['value'], consts, fam)
            if len(consts) >= 2 and model.frames[w].predicates:
                nontrivial = True
    else:
        out += frame_checks(name, model, 0, data, consts, fam)
        nontrivial = len(consts) >= 2 and bool(model.frames[0].predicates)
    seen = set()
    uniq = []
    for fp, d in out:
        if fp not in seen:
            seen.add(fp)
            uniq.append((fp, d))
    return uniq, nontrivial


def check_case(case):
    name = case['logic']
    if case['kind'] == 'api':
        calls = [c08.call_from_json(c) for c in case['calls']]
        try:
            model = c08.apply_calls(name, calls)
        except Exception:
            return [], dict(nontrivial=False, raised=True)
        res, nt = check_model(name, model)
        return [(fp, d + f' ; calls: {c08.show_calls(calls)}') for fp, d in res], dict(nontrivial=nt, models=1)
    logic, prem, con = prover.case_args(case)
    try:
        tab = prover.build(logic, prem, con, order=case.get('order', 0), max_steps=150, models=True)
    except Exception:
        return [], dict(nontrivial=False, raised=True)
    out = []
    nt = False
    n = 0
    for b in tab.open:
        if b.model is None:
            continue
        n += 1
        res, t = check_model(name, b.model, b)
        nt = nt or t
        out += [(fp, f'{prover.case_str(case)}: {d}') for fp, d in res]
    return out, dict(nontrivial=nt, models=n)


def shards(tier, seed_):
    n = 8 if tier == 'quick' else 32
    return ([dict(kind='api', seed=seed_, shard=i, examples=600 if tier == 'quick' else 3000) for i in range(n)] +
            [dict(kind='proof', seed=seed_, shard=i, examples=300 if tier == 'quick' else 1500) for i in range(n)])


def run_shard(shard, acc):
    prof = gen.Profile(w_atom=3, w_pred=6, w_ident=1, w_neg=4, w_bin=5, w_modal=4, w_quant=3, max_depth=2,
                       consts=(A.const(1), A.const(0), A.const(2)))

    @seed(shard['seed'] * 1000 + shard['shard'] + (500 if shard['kind'] == 'proof' else 0))
    @settings(max_examples=shard['examples'], database=None, deadline=None, report_multiple_bugs=False,
              phases=[Phase.generate], suppress_health_check=list(HealthCheck))
    @given(st.data())
    def body(data):
        if shard['kind'] == 'api':
            c = data.draw(c08.case_strategy())
            case = dict(kind='api', logic=c['logic'], calls=c['calls'])
            sample = f'{c["logic"]} model from calls: ' + c08.show_calls([c08.call_from_json(x) for x in c['calls']])
        else:
            logic = data.draw(gen.logic_name())
            # fragments the logic does not interpret stay in with a small weight: they are its uninterpreted sentences
            lp = prof.for_logic(logic, modal=prof.w_modal if R.is_modal(logic) else 2, quant=prof.w_quant if R.is_quantified(logic) else 1)
            prem, con = data.draw(gen.argument(lp, 2))
            case = prover.mk_case(logic, prem, con, order=data.draw(st.integers(0, 3)))
            case['kind'] = 'proof'
            sample = 'models of the open branches of ' + prover.case_str(case)
        res, info = check_case(case)
        if info.get('raised'):
            acc.count('raised (not judged here)')
            return
        if shard['kind'] == 'proof' and not info.get('models'):
            acc.count('proof without open-branch model')
            return
        acc.case(case, nontrivial=info['nontrivial'], classes=('source:' + case['kind'],), sample=sample)
        for fp, d in res:
            acc.finding(fp, case, d)
    body()


def replay(case):
    return check_case(case)[0]


def shrink_candidates(case):
    if case['kind'] == 'api':
        calls = case['calls']
        for i in range(len(calls)):
            c = dict(case)
            c['calls'] = calls[:i] + calls[i + 1:]
            yield c
    else:
        yield from prover.argument_shrinks(case)
