"""C05 -- branches close exactly when their literals are unsatisfiable (complete finite enumeration)."""
from __future__ import annotations

from itertools import combinations, permutations

from .. import ast as A
from .. import refsem as R
from ..lib import get_logic

ID = 'C05'
LEVEL = 'exploration'
EXHAUSTIVE = {'quick': True, 'thorough': True}
RULE = ('complete enumeration per logic: every subset of the literal constraints {p+, p-, ~p+, ~p-} (classical: {p, ~p}) '
        'on one subject (sentence letter, predication, uninterpreted sentence) in every insertion order at one world; '
        'classical family also every subset/order of {a=a, ~a=a, E!a, ~E!a} and of {a=b, ~a=b, b=a, ~b=a}; modal logics also every two-element '
        'subset split over two worlds (must stay open unless it closes at one world... i.e. never closes across worlds), and every one- and two-element '
        'set at world 0 on a crowded branch (one of the literals already present at eight other worlds). '
        'Oracle: closed <=> no reference value of p satisfies all constraints; if open, the value read by the model '
        'builder satisfies all of them and the library evaluator agrees. Each (logic, subject, subset, order) is one '
        'distinct non-trivial obligation.')
ASSUMPTIONS = ['reference negation tables and designated sets of vf/refsem.py (decided by C07)']

CA = A.const(0)
SUBJECTS = {
    'atom': A.atom(0),
    'pred': ('P', (0, 0, 1), (CA,)),
}
OPAQUE_Q = ('Q', 'Universal', A.var(0), ('P', (0, 0, 1), (A.var(0),)))
OPAQUE_M = A.op('Necessity', A.atom(0))


def subjects(name):
    out = dict(SUBJECTS)
    if not R.is_quantified(name):
        out['opaque-quantified'] = OPAQUE_Q
    if not R.is_modal(name):
        out['opaque-modal'] = OPAQUE_M
    return out


def literal_constraints(name):
    if R.is_classical(name):
        return [(False, None), (True, None)]            # (negated, designated)
    return [(False, True), (False, False), (True, True), (True, False)]


def cname(c):
    neg, d = c
    return ('~p' if neg else 'p') + ('' if d is None else ('+' if d else '-'))


def sat_value(name, v, c):
    neg, d = c
    t = R.tables(name)
    val = t.neg[v] if neg else v
    if d is None:
        return val == 'T'
    return (val in R.designated(name)) == d


def satisfiable(name, cons):
    return [v for v in R.values(name) if all(sat_value(name, v, c) for c in cons)]


def build_branch(name, items):
    """items: list of (sentence AST, designated, world). Returns (tab, branch) after running the full rule set."""
    from pytableaux.proof import Tableau, sdwnode
    logic = get_logic(name)
    tab = Tableau(logic)
    b = tab.branch()
    for s, d, w in items:
        b.append(sdwnode(A.to_lib(s), d, w))
    n = 0
    while n < 50 and tab.step() is not None:
        n += 1
    if not tab.finished:
        tab.finish()
    return tab, b


CROWD = 8


def check_set(name, subj_kind, subj, cons, worlds=None, crowd=None):
    """cons: ordered list of constraints; worlds: optional list of worlds per constraint; crowd: a constraint that is put
    on the branch first at CROWD other worlds (a branch on which the same sentence already occurs many times)."""
    w0 = 0 if R.is_modal(name) else None
    items = []
    if crowd is not None:
        neg_, d_ = crowd
        items += [(A.neg(subj) if neg_ else subj, d_, w) for w in range(1, CROWD + 1)]
    for i, (neg, d) in enumerate(cons):
        s = A.neg(subj) if neg else subj
        items.append((s, d, worlds[i] if worlds else w0))
    fam = R.base_of(name) + '*'
    label = ','.join(cname(c) + (f'@w{worlds[i]}' if worlds else '') for i, c in enumerate(cons))
    if crowd is not None:
        label = f'{cname(crowd)}@w1..w{CROWD} first; then ' + label
    try:
        tab, b = build_branch(name, items)
    except Exception as e:
        return [(f'C05|raises|{fam}|{type(e).__name__}', f'{name} {subj_kind} [{label}]: {e!r}')]
    closed = b.closed
    skey = '+'.join(sorted(set(cname(c) for c in cons)))
    if worlds and len(set(worlds)) > 1:
        if closed:
            return [(f'C05|closes-across-worlds|{fam}|{skey}', f'{name} {subj_kind} [{label}]: branch closed although the literals are at different worlds')]
        return []
    vals = satisfiable(name, cons)
    if closed and vals:
        return [(f'C05|over-eager|{fam}|{skey}', f'{name} {subj_kind} [{label}]: branch closed but p={vals[0]} satisfies all literals')]
    if not closed and not vals:
        return [(f'C05|missed|{fam}|{skey}', f'{name} {subj_kind} [{label}]: branch open but no value of p satisfies all literals')]
    if not closed:
        # the model builder's value must satisfy every literal, and value_of must agree
        try:
            model = get_logic(name).Model().read_branch(b)
            kw = dict(world=w0) if w0 is not None else {}
            v = str(model.value_of(A.to_lib(subj), **kw))
            vn = str(model.value_of(A.to_lib(A.neg(subj)), **kw))
        except Exception as e:
            return [(f'C05|model-raises|{fam}|{type(e).__name__}', f'{name} {subj_kind} [{label}]: model building raised {e!r}')]
        if v not in vals:
            return [(f'C05|model-value|{fam}|{skey}', f'{name} {subj_kind} [{label}]: model builder reads p={v}, which violates a literal (satisfying values: {vals})')]
        if vn != R.tables(name).neg[v]:
            return [(f'C05|model-negation|{fam}', f'{name} {subj_kind}: value_of(~p)={vn} with p={v}')]
    return []


def classical_extras(name):
    idn = ('P', 'Identity', (CA, CA))
    ex = ('P', 'Existence', (CA,))
    lits = [('a=a', idn), ('~a=a', A.neg(idn)), ('E!a', ex), ('~E!a', A.neg(ex))]
    for r in range(1, 5):
        for sub in combinations(lits, r):
            for order in permutations(sub):
                yield order


CB = A.const(1)


def identity_pairs():
    "a = b / b = a and their negations: identity is symmetric, so the converse denial must close too."
    ab = ('P', 'Identity', (CA, CB))
    ba = ('P', 'Identity', (CB, CA))
    lits = [('a=b', ab), ('~a=b', A.neg(ab)), ('b=a', ba), ('~b=a', A.neg(ba))]
    for r in range(1, 5):
        for sub in combinations(lits, r):
            for order in permutations(sub):
                yield order


def check_identity_pair(name, order, split=False):
    """split: the literals alternate between worlds 0 and 1 -- a denial at another world contradicts nothing."""
    w0 = 0 if R.is_modal(name) else None
    items = [(s, None, (i % 2) if split else w0) for i, (_, s) in enumerate(order)]
    label = ','.join(n + (f'@w{i % 2}' if split else '') for i, (n, _) in enumerate(order))
    fam = R.base_of(name) + '*'
    try:
        tab, b = build_branch(name, items)
    except Exception as e:
        return [(f'C05|raises|{fam}|{type(e).__name__}', f'{name} [{label}]: {e!r}')]
    names = {n for n, _ in order}
    if split:
        at = lambda k: {n for i, (n, _) in enumerate(order) if i % 2 == k}
        should_close = any(bool(at(k) & {'a=b', 'b=a'}) and bool(at(k) & {'~a=b', '~b=a'}) for k in (0, 1))
    else:
        should_close = bool(names & {'a=b', 'b=a'}) and bool(names & {'~a=b', '~b=a'})
    skey = '+'.join(sorted(names)) + ('|two-worlds' if split else '')
    if b.closed and not should_close:
        return [(f'C05|over-eager|{fam}|{skey}', f'{name} [{label}]: closed, but the literals are classically satisfiable')]
    if not b.closed and should_close:
        return [(f'C05|missed|{fam}|{skey}', f'{name} [{label}]: open, but identity is symmetric: no classical model')]
    if not b.closed:
        try:
            model = get_logic(name).Model().read_branch(b)
            for i, (n, s) in enumerate(order):
                kw = dict(world=(i % 2) if split else w0) if w0 is not None else {}
                if str(model.value_of(A.to_lib(s), **kw)) != 'T':
                    return [(f'C05|model-value|{fam}|{skey}', f'{name} [{label}]: model does not make {n} true')]
        except Exception as e:
            return [(f'C05|model-raises|{fam}|{type(e).__name__}', f'{name} [{label}]: model building raised {e!r}')]
    return []


def check_classical_extra(name, order):
    w0 = 0 if R.is_modal(name) else None
    items = [(s, None, w0) for _, s in order]
    label = ','.join(n for n, _ in order)
    fam = R.base_of(name) + '*'
    try:
        tab, b = build_branch(name, items)
    except Exception as e:
        return [(f'C05|raises|{fam}|{type(e).__name__}', f'{name} [{label}]: {e!r}')]
    names = {n for n, _ in order}
    should_close = bool(names & {'~a=a', '~E!a'})
    skey = '+'.join(sorted(names))
    if b.closed and not should_close:
        return [(f'C05|over-eager|{fam}|{skey}', f'{name} [{label}]: closed, but a=a and E!a hold in every classical model')]
    if not b.closed and should_close:
        return [(f'C05|missed|{fam}|{skey}', f'{name} [{label}]: open, but self-identity / existence cannot fail')]
    if not b.closed:
        try:
            model = get_logic(name).Model().read_branch(b)
            kw = dict(world=w0) if w0 is not None else {}
            for n, s in order:
                if str(model.value_of(A.to_lib(s), **kw)) != 'T':
                    return [(f'C05|model-value|{fam}|{skey}', f'{name} [{label}]: model does not make {n} true')]
        except Exception as e:
            return [(f'C05|model-raises|{fam}|{type(e).__name__}', f'{name} [{label}]: model building raised {e!r}')]
    return []


def obligations(name):
    cons = literal_constraints(name)
    for kind, subj in subjects(name).items():
        for r in range(1, len(cons) + 1):
            for sub in combinations(cons, r):
                for order in permutations(sub):
                    yield ('set', kind, subj, list(order), None)
        if R.is_modal(name):
            for sub in combinations(cons, 2):
                for order in permutations(sub):
                    yield ('set', kind, subj, list(order), [0, 1])
            # crowded branches: the same sentence already sits at eight other worlds (lookups that switch strategy
            # with the number of occurrences must still find -- and only find -- the partner at the same world)
            if kind == 'atom':
                for crowd in cons:
                    for r in (1, 2):
                        for sub in combinations(cons, r):
                            for order in permutations(sub):
                                yield ('set', kind, subj, list(order), None, crowd)
    if R.is_classical(name):
        for order in classical_extras(name):
            yield ('extra', order)
        for order in identity_pairs():
            yield ('idpair', order)
            if R.is_modal(name) and len(order) >= 2:
                yield ('idpair-split', order)


def shards(tier, seed):
    names = sorted(R.LOGICS)
    return [dict(logics=names[i::16]) for i in range(16)]


def run_shard(shard, acc):
    for name in shard['logics']:
        first = True
        for ob in obligations(name):
            if ob[0] == 'set':
                _, kind, subj, cons, worlds, *rest = ob
                crowd = rest[0] if rest else None
                res = check_set(name, kind, subj, cons, worlds, crowd)
                key = (name, kind, [cname(c) for c in cons], worlds, cname(crowd) if crowd else None)
                case = dict(kind='set', logic=name, subject_kind=kind, subject=A.to_json(subj),
                            constraints=[list(c) for c in cons], worlds=worlds, crowd=list(crowd) if crowd else None)
                sample = f'{name}: {A.show(subj)} with literals [{", ".join(cname(c) for c in cons)}]' if first and len(cons) > 1 else None
            else:
                order = ob[1]
                res = check_classical_extra(name, order) if ob[0] == 'extra' else check_identity_pair(name, order, ob[0] == 'idpair-split')
                key = (name, ob[0], [n for n, _ in order])
                case = dict(kind=ob[0], logic=name, order=[[n, A.to_json(s)] for n, s in order])
                sample = None
            if sample:
                first = False
            acc.case(key, nontrivial=True, classes=(ob[0],), sample=sample)
            for fp, detail in res:
                acc.finding(fp, case, detail)


def replay(case):
    if case['kind'] == 'set':
        return check_set(case['logic'], case['subject_kind'], A.from_json(case['subject']),
                         [tuple(c) for c in case['constraints']], case['worlds'], tuple(case['crowd']) if case.get('crowd') else None)
    order = [(n, A.from_json(s)) for n, s in case['order']]
    if case['kind'] == 'extra':
        return check_classical_extra(case['logic'], order)
    return check_identity_pair(case['logic'], order, case['kind'] == 'idpair-split')
