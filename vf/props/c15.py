"""C15 -- substitution and the derived attributes of sentences are exact (reference walkers on nested tuples)."""
from __future__ import annotations

from itertools import product

from hypothesis import HealthCheck, Phase, given, seed, settings
from hypothesis import strategies as st

from .. import ast as A
from .. import gen

ID = 'C15'
LEVEL = 'exploration'
EXHAUSTIVE = {'quick': True, 'thorough': True}
RULE = ('(1) exhaustive: every sentence of depth <= 2 over a tiny vocabulary (A, F/1, G/2, parameters a, b, x, y; ~, &, possibility; '
        'existential quantifier over x or y; open sentences included) x every ordered pair of parameters; (2) Hypothesis sentences of '
        'depth <= 5 over the full vocabulary (all operators and quantifiers, system predicates, subscripts, nested quantifiers sharing '
        'parameters) x drawn parameter pairs (identical, absent, variable-for-constant included; pairs whose old parameter is also '
        'bound by a quantifier inside the sentence are included and counted: the statement is read literally -- exactly the '
        'occurrences as a parameter are replaced). Oracle: reference substitution / '
        'instantiation / negative() / collection of constants, variables, predicates, letters, operators and quantifiers in prefix '
        'order, all computed on the independent nested-tuple walk. Non-trivial = the old parameter occurs at least twice at different '
        'depths; distinct by (sentence, pair).')
ASSUMPTIONS = ['vf/ast.py walkers are the reference (no library code involved)']


def occurrences_depths(s, p, depth=0, out=None):
    if out is None:
        out = []
    if s[0] == 'P':
        out += [depth for x in s[2] if x == p]
    for c in A.children(s):
        occurrences_depths(c, p, depth + 1, out)
    return out


def rebinds(s, p):
    return any(x[0] == 'Q' and x[2] == p for x in A.subsentences(s))


def check_sentence(s, pairs):
    """Returns (violations, info). pairs: list of (new, old)."""
    out = []
    info = dict(nontrivial=False, excluded=0, subst=0, rebound=0)

    def bad(tag, msg):
        fp = f'C15|{tag}'
        if not any(f == fp for f, _ in out):
            out.append((fp, f'{A.show(s) if not A.free_variables(s) else A.std(s)}: {msg}'))
    try:
        x = A.to_lib(s)
    except Exception as e:
        bad(f'construct-raises|{type(e).__name__}', f'construction raised {e!r}')
        return out, info
    # derived attributes
    try:
        got = dict(
            constants=frozenset(A.from_lib(c) for c in x.constants),
            variables=frozenset(A.from_lib(c) for c in x.variables),
            predicates=frozenset(A.pred_from_lib(p) for p in x.predicates),
            atomics=frozenset(A.from_lib(a) for a in x.atomics),
            operators=tuple(o.name for o in x.operators),
            quantifiers=tuple(q.name for q in x.quantifiers))
    except Exception as e:
        bad(f'attribute-raises|{type(e).__name__}', f'reading derived attributes raised {e!r}')
        got = None
    if got is not None:
        want = dict(constants=A.constants(s), variables=A.variables(s), predicates=A.predicates(s), atomics=A.atoms(s),
                    operators=A.operators(s), quantifiers=A.quantifiers(s))
        for k in want:
            if got[k] != want[k]:
                bad(f'attribute|{k}', f'{k} = {sorted(map(str, got[k])) if isinstance(got[k], frozenset) else got[k]}, walk gives '
                    f'{sorted(map(str, want[k])) if isinstance(want[k], frozenset) else want[k]}')
        # a second read (lazily cached) must agree
        if (frozenset(A.from_lib(c) for c in x.constants) != got['constants'] or tuple(o.name for o in x.operators) != got['operators']):
            bad('attribute|unstable', 'derived attributes change between reads')
    # negative
    try:
        n = x.negative()
        want = s[2][0] if (s[0] == 'O' and s[1] == 'Negation') else A.neg(s)
        if A.from_lib(n) != want:
            bad('negative', f'negative() gives {A.std(A.from_lib(n))}, expected {A.std(want)}')
        if A.from_lib((~x).negative()) != s:
            bad('negative|un-negate', 'un-negating the negation does not return the sentence')
    except Exception as e:
        bad(f'negative-raises|{type(e).__name__}', f'negative() raised {e!r}')
    # instantiation
    if s[0] == 'Q':
        for c in (A.const(0), A.const(2, 3)):
            try:
                r1 = A.from_lib(A.to_lib(c) >> x)
                r2 = A.from_lib(x.unquantify(A.to_lib(c)))
                want = A.instantiate(s, c)
                if rebinds(s[3], s[2]):
                    info['rebound'] += 1
                if r1 != want or r2 != want:
                    bad('instantiate', f'{A.std(c)} >> sentence gives {A.std(r1)}, substituting in the body gives {A.std(want)}')
            except Exception as e:
                bad(f'instantiate-raises|{type(e).__name__}', f'instantiation raised {e!r}')
    # substitution
    for new, old in pairs:
        if rebinds(s, old):
            # the old parameter is also bound by a quantifier inside the sentence: the statement is read literally
            # (exactly the occurrences as a parameter are replaced, binders are not parameters)
            info['rebound'] += 1
        info['subst'] += 1
        try:
            r = A.from_lib(x.substitute(A.to_lib(new), A.to_lib(old)))
        except Exception as e:
            bad(f'substitute-raises|{type(e).__name__}', f'substitute({A.std(new)}, {A.std(old)}) raised {e!r}')
            continue
        want = A.subst(s, new, old)
        if r != want:
            bad('substitute', f'substitute({A.std(new)}, {A.std(old)}) gives {A.std(r)}, expected {A.std(want)}')
        ds = occurrences_depths(s, old)
        if len(ds) >= 2 and len(set(ds)) >= 2:
            info['nontrivial'] = True
    return out, info


# ----------------------------------------------------------------------------- exhaustive universe

PARAMS = [A.const(0), A.const(1), A.var(0), A.var(1)]


def tiny_universe(depth):
    F, G = (0, 0, 1), (1, 0, 2)
    a, b, x, y = PARAMS
    leaves = [A.atom(0), ('P', F, (a,)), ('P', F, (b,)), ('P', F, (x,)), ('P', G, (a, b)), ('P', G, (x, a)),
              ('P', G, (x, x)), ('P', G, (y, x))]
    levels = [leaves]
    cur = list(leaves)
    for _ in range(depth):
        nxt = list(cur)
        seen = set(cur)
        def add(s):
            if s not in seen:
                seen.add(s)
                nxt.append(s)
        for s in cur:
            add(A.neg(s))
            add(A.op('Possibility', s))
            add(('Q', 'Existential', x, s))
            add(('Q', 'Existential', y, s))
        for s, t in product(cur, cur):
            add(A.op('Conjunction', s, t))
        cur = nxt
    return cur


def run_exhaustive(shard, acc):
    pairs = [(n, o) for n in PARAMS for o in PARAMS]
    for i, s in enumerate(tiny_universe(2)):
        if i % shard['n'] != shard['k']:
            continue
        res, info = check_sentence(s, pairs)
        acc.count('pairs-with-rebound-old-parameter', info['rebound'])
        acc.case(('exh', s), nontrivial=info['nontrivial'], classes=('exhaustive',),
                 sample=f'{A.std(s)} x {len(pairs)} parameter pairs' if info['nontrivial'] else None)
        acc.extra['substitutions'] = acc.extra.get('substitutions', 0) + info['subst']
        for fp, d in res:
            acc.finding(fp, dict(sentence=A.to_json(s), pairs=[[A.to_json(n), A.to_json(o)] for n, o in pairs]), d)


PROF = gen.Profile(natoms=5, preds=((0, 0, 1), (1, 0, 2), (2, 1, 3)), consts=(A.const(0), A.const(1), A.const(2, 3)),
                   vars=(A.var(0), A.var(1, 12), A.var(2, 5), A.var(3)), w_atom=3, w_pred=6, w_ident=2, w_neg=3, w_assert=1, w_bin=7,
                   w_modal=3, w_quant=5, max_depth=5)


def run_random(shard, acc):
    allp = [A.const(0), A.const(1), A.const(2, 3), A.const(3), A.var(0), A.var(1, 12), A.var(2, 5), A.var(3, 1)]

    @seed(shard['seed'] * 1000 + shard['shard'])
    @settings(max_examples=shard['examples'], database=None, deadline=None, report_multiple_bugs=False,
              phases=[Phase.generate], suppress_health_check=list(HealthCheck))
    @given(st.data())
    def body(data):
        s = data.draw(gen.sentence(PROF))
        if data.draw(st.integers(0, 2)) == 0:
            # open a constant into a free variable
            cs = sorted(A.constants(s))
            if cs:
                s = A.subst(s, A.var(3, 1), cs[data.draw(st.integers(0, len(cs) - 1))])
        present = sorted(set(A.params_prefix(s)))
        pairs = []
        for _ in range(data.draw(st.integers(2, 5))):
            old = present[data.draw(st.integers(0, len(present) - 1))] if present and data.draw(st.integers(0, 4)) else allp[data.draw(st.integers(0, len(allp) - 1))]
            new = old if data.draw(st.integers(0, 5)) == 0 else allp[data.draw(st.integers(0, len(allp) - 1))]
            pairs.append((new, old))
        res, info = check_sentence(s, pairs)
        acc.count('pairs-with-rebound-old-parameter', info['rebound'])
        acc.case(('rand', s, pairs), nontrivial=info['nontrivial'], classes=('random',),
                 sample=f'{A.std(s)} with ' + ', '.join(f'{A.std(n)}/{A.std(o)}' for n, o in pairs))
        acc.extra['substitutions'] = acc.extra.get('substitutions', 0) + info['subst']
        for fp, d in res:
            acc.finding(fp, dict(sentence=A.to_json(s), pairs=[[A.to_json(n), A.to_json(o)] for n, o in pairs]), d)
    body()


def shards(tier, seed_):
    n = 16
    out = [dict(kind='exh', k=k, n=n) for k in range(n)]
    out += [dict(kind='rand', seed=seed_, shard=i, examples=800 if tier == 'quick' else 6000) for i in range(16)]
    return out


def run_shard(shard, acc):
    (run_exhaustive if shard['kind'] == 'exh' else run_random)(shard, acc)


def replay(case):
    s = A.from_json(case['sentence'])
    pairs = [(A.from_json(n), A.from_json(o)) for n, o in case['pairs']]
    return check_sentence(s, pairs)[0]
