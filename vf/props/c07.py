"""C07 -- each logic's truth tables are the documented ones (complete enumeration)."""
from __future__ import annotations

from itertools import product

from .. import ast as A
from .. import refsem as R
from ..lib import all_logic_names, get_logic

ID = 'C07'
LEVEL = 'exploration'
EXHAUSTIVE = {'quick': True, 'thorough': True}
RULE = ('complete enumeration: every registered logic x 8 truth-functional operators x every tuple of '
        'its values compared with the reference tables (vf/refsem.py, written from doc prose and the cited '
        'literature); value set and designated set; the documented definitions of > < $ % * checked on the '
        "code's own functions; every modal extension compared cell by cell with its base logic; the same tables read through "
        'the model evaluator: value_of(op(X, Y)) against the table at value_of(X), value_of(Y) for operands of every kind '
        '(letter, predication, quantified, modal, uninterpreted) and every value pair. '
        'Every (logic, operator, value-tuple) cell is one distinct non-trivial case; so is every '
        '(logic, definition, value-tuple) obligation.')
ASSUMPTIONS = [
    'reference tables in vf/refsem.py transcribe the doc prose / cited literature correctly (self-tested by algebraic laws)',
    'FDE family: the Belnap-Dunn lattice is the reference (DESIGN.md section 4)',
]

TF_OPS = A.TF_OPS


def shards(tier, seed):
    names = sorted(R.LOGICS)
    return [dict(logics=names[i::8]) for i in range(8)] + [dict(registry=True)]


def code_table(logic, oper):
    from pytableaux.lang import Operator
    tt = logic.Model.truth_table(Operator[oper])
    return {tuple(str(v) for v in ins): str(out) for ins, out in tt.mapping.items()}


def family_tag(name):
    base = R.base_of(name)
    return base + '*'


def check_logic(name):
    """Yield (fingerprint, detail, cellkey) for failing cells and ('ok', cellkey) for passing ones."""
    logic = get_logic(name)
    Meta = logic.Meta
    vals = ''.join(str(v) for v in Meta.values)
    if vals != R.values(name):
        yield (f'C07|values|{name}', f'values {vals!r} != documented {R.values(name)!r}', ('values', name))
    else:
        yield ('ok', ('values', name))
    des = ''.join(sorted(str(v) for v in Meta.designated_values))
    if des != ''.join(sorted(R.designated(name))):
        yield (f'C07|designated|{name}', f'designated {des!r} != documented {R.designated(name)!r}', ('designated', name))
    else:
        yield ('ok', ('designated', name))
    ref = R.tables(name)
    code = {}
    for oper in TF_OPS:
        tbl = code[oper] = code_table(logic, oper)
        n = A.OPS[oper]
        expected_keys = set(product(R.values(name), repeat=n))
        if set(tbl) != expected_keys:
            yield (f'C07|tablekeys|{family_tag(name)}|{oper}', f'{name}: table keys {sorted(tbl)}', ('keys', name, oper))
            continue
        for args in sorted(expected_keys):
            want = ref.apply(oper, *args)
            got = tbl[args]
            key = ('cell', name, oper, args)
            if got != want:
                yield (f'C07|table|{family_tag(name)}|{oper}|{",".join(args)}',
                       f'{name}: {oper}({",".join(args)}) = {got}, documented/literature value {want}', key)
            else:
                yield ('ok', key)
    # definitional identities on the code's own functions
    V = R.values(name)
    base = R.base_of(name)
    neg, conj, disj = code['Negation'], code['Conjunction'], code['Disjunction']
    mc, mb, cd, bc, ast = (code['MaterialConditional'], code['MaterialBiconditional'],
                           code['Conditional'], code['Biconditional'], code['Assertion'])
    def law(tag, args, got, want):
        key = ('law', name, tag, args)
        if got != want:
            return (f'C07|definition|{family_tag(name)}|{tag}|{",".join(args)}',
                    f'{name}: {tag} at ({",".join(args)}): operator gives {got}, its definition gives {want}', key)
        return ('ok', key)
    # "transparent where not native": by the documentation (B3E and GO have a native assertion) and by the package's own
    # declaration -- a logic that does not declare Assertion native must not have a non-transparent one
    declared_native = any(str(o) == 'Assertion' for o in Meta.native_operators)
    for a in V:
        if base not in ('B3E', 'GO'):
            yield law('assertion-transparent', (a,), ast[(a,)], a)
        if not declared_native:
            yield law('assertion-transparent-where-not-declared-native', (a,), ast[(a,)], a)
        if base == 'GO':
            yield law('*A:=A&A', (a,), ast[(a,)], conj[a, a])
        for b in V:
            yield law('A>B:=~AVB', (a, b), mc[a, b], disj[neg[(a,)], b])
            yield law('A<B:=(A>B)&(B>A)', (a, b), mb[a, b], conj[mc[a, b], mc[b, a]])
            yield law('A%B:=(A$B)&(B$A)', (a, b), bc[a, b], conj[cd[a, b], cd[b, a]])
            if base == 'B3E':
                yield law('A$B:=~*AV*B', (a, b), cd[a, b], disj[neg[(ast[(a,)],)], ast[(b,)]])
            if base == 'GO':
                gap = lambda x: neg[(disj[x, neg[(x,)]],)]
                yield law('A$B:=(A>B)V(~(AV~A)&~(BV~B))', (a, b), cd[a, b],
                          disj[mc[a, b], conj[gap(a), gap(b)]])
            if base == 'P3':
                yield law('A&B:=~(~AV~B)', (a, b), conj[a, b], neg[(disj[neg[(a,)], neg[(b,)]],)])
            if base not in ('L3', 'RM3', 'B3E', 'G3', 'MH', 'NH', 'GO'):
                yield law('compat:$is>', (a, b), cd[a, b], mc[a, b])
    # a modal extension has exactly the tables of its base
    if R.is_modal(name) and base != name:
        bname = {'CFOL': 'CFOL'}.get(base, base)
        blogic = get_logic(bname)
        for oper in TF_OPS:
            bt = code_table(blogic, oper)
            for args, got in sorted(code[oper].items()):
                key = ('ext', name, oper, args)
                if bt.get(args) != got:
                    yield (f'C07|extension|{name}|{oper}|{",".join(args)}',
                           f'{name}: {oper}({",".join(args)}) = {got} but base {bname} gives {bt.get(args)}', key)
                else:
                    yield ('ok', key)


def evaluator_cells(name):
    """The same tables seen through the model evaluator: for every operator and every pair of values, with operands
    of every kind (letter, predication, quantified, modal, uninterpreted), value_of(op(X, Y)) must be the documented
    table applied to value_of(X), value_of(Y).  Yields ('ok', key) | (fingerprint, detail, key)."""
    logic = get_logic(name)
    V = R.values(name)
    ref = R.tables(name)
    modal = R.is_modal(name)
    a = A.const(0)
    F, G = (0, 0, 1), (1, 0, 1)
    x = A.var(0)
    kinds_x = [('letter', A.atom(0)), ('predication', ('P', F, (a,)))]
    kinds_y = [('letter', A.atom(1)), ('predication', ('P', G, (a,)))]
    # quantified / modal operands: interpreted where the logic has them, uninterpreted (set directly) elsewhere
    kinds_x += [('existential', ('Q', 'Existential', x, ('P', F, (x,)))), ('universal', ('Q', 'Universal', x, ('P', F, (x,))))]
    kinds_y += [('existential', ('Q', 'Existential', x, ('P', G, (x,)))), ('universal', ('Q', 'Universal', x, ('P', G, (x,))))]
    kinds_x += [('possibility', A.op('Possibility', A.atom(0))), ('necessity', A.op('Necessity', A.atom(0)))]
    kinds_y += [('possibility', A.op('Possibility', A.atom(1))), ('necessity', A.op('Necessity', A.atom(1)))]
    # letters and predications the model never hears about: they take the logic's default value, which must behave as
    # that value in every table (e.g. a default inherited from another logic's value class compares unequal to its namesake)
    kinds_x += [('unassigned letter', A.atom(2)), ('unassigned predication', ('P', (2, 0, 1), (a,)))]
    kinds_y += [('unassigned letter', A.atom(3)), ('unassigned predication', ('P', (2, 1, 1), (a,)))]
    kw = dict(world=0) if modal else {}
    for v1 in V:
        for v2 in V:
            m = logic.Model()
            m.set_atomic_value(A.to_lib(A.atom(0)), v1, **kw)
            m.set_atomic_value(A.to_lib(A.atom(1)), v2, **kw)
            m.set_predicated_value(A.to_lib(('P', F, (a,))), v1, **kw)
            m.set_predicated_value(A.to_lib(('P', G, (a,))), v2, **kw)
            if modal:
                m.R.add((0, 0))
            for _, sx in kinds_x:
                if m.is_sentence_opaque(A.to_lib(sx)):
                    m.set_opaque_value(A.to_lib(sx), v1, **kw)
            for _, sy in kinds_y:
                if m.is_sentence_opaque(A.to_lib(sy)):
                    m.set_opaque_value(A.to_lib(sy), v2, **kw)
            m.finish()
            val = lambda s: str(m.value_of(A.to_lib(s), **kw))
            for oper in TF_OPS:
                n = A.OPS[oper]
                for kx, sx in kinds_x:
                    # binary operators also with one and the same sentence on both sides (value v1 twice)
                    for ky, sy in ((kinds_y + [('the same sentence', sx)]) if n == 2 else [(None, None)]):
                        if ky == 'the same sentence' and v2 != V[0]:
                            continue
                        key = ('eval', name, oper, kx, ky, v1, v2)
                        try:
                            if n == 1:
                                got = val(A.op(oper, sx))
                                args = (val(sx),)
                            else:
                                got = val(A.op(oper, sx, sy))
                                args = (val(sx), val(sy))
                        except Exception as e:
                            yield (f'C07|evaluator-raises|{family_tag(name)}|{oper}|{type(e).__name__}',
                                   f'{name}: evaluating {oper} on a {kx} / {ky} operand raised {e!r}', key)
                            continue
                        want = ref.apply(oper, *args)
                        if got != want:
                            cell = ','.join(args)
                            # FDE family: the same 12 known cells, seen through the evaluator
                            fp = f'C07|table|{family_tag(name)}|{oper}|{cell}' if R.base_of(name) == 'FDE' and {'N', 'B'} <= set(args) | {ref.neg[x_] for x_ in args} else \
                                f'C07|evaluator|{family_tag(name)}|{oper}|{kx}+{ky}|{cell}'
                            yield (fp, f'{name}: value_of of {oper} applied to a {kx}{"" if ky is None else " and a " + ky} operand with values '
                                   f'({cell}) is {got}, documented table gives {want}', key)
                        else:
                            yield ('ok', key)


def run_shard(shard, acc):
    if shard.get('registry'):
        names = set(all_logic_names())
        acc.case(('registry',), nontrivial=True, sample=f'registered logics: {len(names)}')
        if names != set(R.LOGICS):
            acc.finding('C07|registry', dict(kind='registry'),
                        f'registered logics differ from the reference table: only-code={sorted(names - set(R.LOGICS))} '
                        f'only-reference={sorted(set(R.LOGICS) - names)}')
        return
    for name in shard['logics']:
        nshown = 0
        from itertools import chain
        for res in chain(check_logic(name), evaluator_cells(name)):
            if res[0] == 'ok':
                key = res[1]
                sample = None
                if key[0] == 'cell' and nshown < 1 and len(key[3]) == 2:
                    sample = f'{key[1]}: {key[2]}({",".join(key[3])}) agrees with reference {R.tables(key[1]).apply(key[2], *key[3])}'
                    nshown += 1
                acc.case(key, nontrivial=True, classes=(key[0],), sample=sample)
            else:
                fp, detail, key = res
                acc.case(key, nontrivial=True, classes=(key[0], 'mismatch'))
                acc.finding(fp, dict(kind='logic', logic=name, key=A.to_json(key)), detail)


def replay(case):
    if case.get('key') and case['key'][0] == 'eval':
        want_key = A.from_json(case['key'])
        return [(r[0], r[1]) for r in evaluator_cells(case['logic']) if r[0] != 'ok' and r[2] == want_key]
    if case.get('kind') == 'registry':
        names = set(all_logic_names())
        return [('C07|registry', 'registry differs')] if names != set(R.LOGICS) else []
    want_key = A.from_json(case['key']) if 'key' in case else None
    out = []
    for res in check_logic(case['logic']):
        if res[0] != 'ok' and (want_key is None or res[2] == want_key):
            out.append((res[0], res[1]))
    return out
