"""C07 -- each logic's truth tables are the documented ones (complete enumeration)."""
from __future__ import annotations

from itertools import product

from .. import ast as A
from .. import refsem as R
from ..lib import all_logic_names, get_logic

ID = 'C07'
LEVEL = 'exploration'
EXHAUSTIVE = {'quick': True, 'thorough': True}
RULE = ('complete enumeration: every registered logic x 8 truth-functional operators x every tuple of '
        'its values compared with the reference tables (vf/refsem.py, written from doc prose and the cited '
        'literature); value set and designated set; the documented definitions of > < $ % * checked on the '
        "code's own functions; every modal extension compared cell by cell with its base logic. "
        'Every (logic, operator, value-tuple) cell is one distinct non-trivial case; so is every '
        '(logic, definition, value-tuple) obligation.')
ASSUMPTIONS = [
    'reference tables in vf/refsem.py transcribe the doc prose / cited literature correctly (self-tested by algebraic laws)',
    'FDE family: the Belnap-Dunn lattice is the reference (DESIGN.md section 4)',
]

TF_OPS = A.TF_OPS


def shards(tier, seed):
    names = sorted(R.LOGICS)
    return [dict(logics=names[i::8]) for i in range(8)] + [dict(registry=True)]


def code_table(logic, oper):
    from pytableaux.lang import Operator
    tt = logic.Model.truth_table(Operator[oper])
    return {tuple(str(v) for v in ins): str(out) for ins, out in tt.mapping.items()}


def family_tag(name):
    base = R.base_of(name)
    return base + '*'


def check_logic(name):
    """Yield (fingerprint, detail, cellkey) for failing cells and ('ok', cellkey) for passing ones."""
    logic = get_logic(name)
    Meta = logic.Meta
    vals = ''.join(str(v) for v in Meta.values)
    if vals != R.values(name):
        yield (f'C07|values|{name}', f'values {vals!r} != documented {R.values(name)!r}', ('values', name))
    else:
        yield ('ok', ('values', name))
    des = ''.join(sorted(str(v) for v in Meta.designated_values))
    if des != ''.join(sorted(R.designated(name))):
        yield (f'C07|designated|{name}', f'designated {des!r} != documented {R.designated(name)!r}', ('designated', name))
    else:
        yield ('ok', ('designated', name))
    ref = R.tables(name)
    code = {}
    for oper in TF_OPS:
        tbl = code[oper] = code_table(logic, oper)
        n = A.OPS[oper]
        expected_keys = set(product(R.values(name), repeat=n))
        if set(tbl) != expected_keys:
            yield (f'C07|tablekeys|{family_tag(name)}|{oper}', f'{name}: table keys {sorted(tbl)}', ('keys', name, oper))
            continue
        for args in sorted(expected_keys):
            want = ref.apply(oper, *args)
            got = tbl[args]
            key = ('cell', name, oper, args)
            if got != want:
                yield (f'C07|table|{family_tag(name)}|{oper}|{",".join(args)}',
                       f'{name}: {oper}({",".join(args)}) = {got}, documented/literature value {want}', key)
            else:
                yield ('ok', key)
    # definitional identities on the code's own functions
    V = R.values(name)
    base = R.base_of(name)
    neg, conj, disj = code['Negation'], code['Conjunction'], code['Disjunction']
    mc, mb, cd, bc, ast = (code['MaterialConditional'], code['MaterialBiconditional'],
                           code['Conditional'], code['Biconditional'], code['Assertion'])
    def law(tag, args, got, want):
        key = ('law', name, tag, args)
        if got != want:
            return (f'C07|definition|{family_tag(name)}|{tag}|{",".join(args)}',
                    f'{name}: {tag} at ({",".join(args)}): operator gives {got}, its definition gives {want}', key)
        return ('ok', key)
    for a in V:
        if base not in ('B3E', 'GO'):
            yield law('assertion-transparent', (a,), ast[(a,)], a)
        if base == 'GO':
            yield law('*A:=A&A', (a,), ast[(a,)], conj[a, a])
        for b in V:
            yield law('A>B:=~AVB', (a, b), mc[a, b], disj[neg[(a,)], b])
            yield law('A<B:=(A>B)&(B>A)', (a, b), mb[a, b], conj[mc[a, b], mc[b, a]])
            yield law('A%B:=(A$B)&(B$A)', (a, b), bc[a, b], conj[cd[a, b], cd[b, a]])
            if base == 'B3E':
                yield law('A$B:=~*AV*B', (a, b), cd[a, b], disj[neg[(ast[(a,)],)], ast[(b,)]])
            if base == 'GO':
                gap = lambda x: neg[(disj[x, neg[(x,)]],)]
                yield law('A$B:=(A>B)V(~(AV~A)&~(BV~B))', (a, b), cd[a, b],
                          disj[mc[a, b], conj[gap(a), gap(b)]])
            if base == 'P3':
                yield law('A&B:=~(~AV~B)', (a, b), conj[a, b], neg[(disj[neg[(a,)], neg[(b,)]],)])
            if base not in ('L3', 'RM3', 'B3E', 'G3', 'MH', 'NH', 'GO'):
                yield law('compat:$is>', (a, b), cd[a, b], mc[a, b])
    # a modal extension has exactly the tables of its base
    if R.is_modal(name) and base != name:
        bname = {'CFOL': 'CFOL'}.get(base, base)
        blogic = get_logic(bname)
        for oper in TF_OPS:
            bt = code_table(blogic, oper)
            for args, got in sorted(code[oper].items()):
                key = ('ext', name, oper, args)
                if bt.get(args) != got:
                    yield (f'C07|extension|{name}|{oper}|{",".join(args)}',
                           f'{name}: {oper}({",".join(args)}) = {got} but base {bname} gives {bt.get(args)}', key)
                else:
                    yield ('ok', key)


def run_shard(shard, acc):
    if shard.get('registry'):
        names = set(all_logic_names())
        acc.case(('registry',), nontrivial=True, sample=f'registered logics: {len(names)}')
        if names != set(R.LOGICS):
            acc.finding('C07|registry', dict(kind='registry'),
                        f'registered logics differ from the reference table: only-code={sorted(names - set(R.LOGICS))} '
                        f'only-reference={sorted(set(R.LOGICS) - names)}')
        return
    for name in shard['logics']:
        nshown = 0
        for res in check_logic(name):
            if res[0] == 'ok':
                key = res[1]
                sample = None
                if key[0] == 'cell' and nshown < 1 and len(key[3]) == 2:
                    sample = f'{key[1]}: {key[2]}({",".join(key[3])}) agrees with reference {R.tables(key[1]).apply(key[2], *key[3])}'
                    nshown += 1
                acc.case(key, nontrivial=True, classes=(key[0],), sample=sample)
            else:
                fp, detail, key = res
                acc.case(key, nontrivial=True, classes=(key[0], 'mismatch'))
                acc.finding(fp, dict(kind='logic', logic=name, key=A.to_json(key)), detail)


def replay(case):
    if case.get('kind') == 'registry':
        names = set(all_logic_names())
        return [('C07|registry', 'registry differs')] if names != set(R.LOGICS) else []
    want_key = A.from_json(case['key']) if 'key' in case else None
    out = []
    for res in check_logic(case['logic']):
        if res[0] != 'ok' and (want_key is None or res[2] == want_key):
            out.append((res[0], res[1]))
    return out
