"""C10 -- provability obeys the structural laws of a consequence relation (metamorphic)."""
from __future__ import annotations

from hypothesis import HealthCheck, Phase, given, seed, settings
from hypothesis import strategies as st

from .. import ast as A
from .. import gen
from .. import prover
from .. import refsem as R

ID = 'C10'
LEVEL = 'exploration'
RULE = ('Hypothesis arguments (generic / modal-heavy / quantifier-heavy / biased to validity by instantiating standard valid '
        'forms; first-order modal ones included; a sixth of the cases from the witness sub-domain: one literal per constant for 2-3 constants in a drawn order of appearance, an existential premise, the body about one of the constants as conclusion) x logic, then '
        'metamorphic variants: (a) the conclusion inserted among the premises at a drawn position (and, in half the cases, a second time) => must be valid; '
        '(b) a drawn extra premise added to an argument found valid => must not become invalid with a limit-free open '
        'branch; (c) injective renamings of sentence letters, constants, user predicates (arity kept) and bound '
        'variables, one kind at a time and all together, with new indexes and subscripts that change the sort order '
        '=> same outcome class. Comparisons involving a limited run are inconclusive. Non-trivial = a pair of runs both '
        'non-limited whose arguments differ; distinct by (logic, argument, transformation).')
ASSUMPTIONS = ['relations between runs only; no semantic oracle']
MAX_STEPS = 200

PROFILES = {
    'generic': gen.Profile(w_atom=5, w_pred=4, w_ident=1, w_neg=4, w_assert=1, w_bin=7, w_modal=4, w_quant=3, max_depth=3),
    'modal-heavy': gen.Profile(w_atom=6, w_pred=2, w_neg=4, w_bin=4, w_modal=10, w_quant=1, max_depth=3, natoms=2),
    'quant-heavy': gen.Profile(w_atom=2, w_pred=7, w_ident=1, w_neg=3, w_bin=5, w_modal=2, w_quant=8, max_depth=3),
}


def rename(s, mp):
    "Apply an injective renaming given as {symbol: symbol} over atoms, parameters and user predicates."
    t = s[0]
    if t == 'A':
        return mp.get(s, s)
    if t == 'P':
        p = s[1]
        if not isinstance(p, str):
            p = mp.get(('pred', p), ('pred', p))[1]
        return ('P', p, tuple(mp.get(x, x) for x in s[2]))
    if t == 'Q':
        return ('Q', s[1], mp.get(s[2], s[2]), rename(s[3], mp))
    return ('O', s[1], tuple(rename(c, mp) for c in s[2]))


def symbols(sentences):
    atoms, consts, preds, vars_ = set(), set(), set(), set()
    for s in sentences:
        for x in A.subsentences(s):
            if x[0] == 'A':
                atoms.add(x)
            elif x[0] == 'P':
                if not isinstance(x[1], str):
                    preds.add(x[1])
                for p in x[2]:
                    (consts if p[0] == 'c' else vars_).add(p)
            elif x[0] == 'Q':
                vars_.add(x[2])
    return sorted(atoms), sorted(consts), sorted(preds), sorted(vars_)


def run(logic, prem, con, case):
    tab = prover.build(logic, prem, con, group=case['group'], rank=case['rank'], order=case['order'],
                       max_steps=case.get('max_steps', MAX_STEPS))
    return prover.outcome(tab)


def check_case(case):
    logic, prem, con = prover.case_args(case)
    fam = R.base_of(logic) + '*'
    out = []
    info = dict(pairs=0, limited=0, kinds=[])
    try:
        base = run(logic, prem, con, case)
    except Exception:
        info['raised'] = True
        return [], info
    info['base'] = base

    def cmp(kind, tag, prem2, con2, relation):
        try:
            oc = run(logic, prem2, con2, case)
        except Exception:
            return
        desc = f'{logic} | {A.show_arg(prem2, con2)}'
        if oc == 'limited' or (relation != 'reflexive' and base == 'limited'):
            info['limited'] += 1
            return
        info['pairs'] += 1
        info['kinds'].append(kind)
        if relation == 'reflexive':
            if oc != 'valid':
                out.append((f'C10|reflexivity|{fam}', f'{desc}: the conclusion is a premise, yet the outcome is {oc}'))
        elif relation == 'monotone':
            if base == 'valid' and oc == 'invalid':
                out.append((f'C10|monotonicity|{fam}', f'{prover.case_str(case)} is valid, but with the added premise it is refuted: {desc}'))
        else:
            if oc != base:
                out.append((f'C10|renaming|{fam}|{tag}', f'{prover.case_str(case)} is {base}, but the renamed {desc} is {oc}'))

    t = case['transforms']
    pos = t['reflex_pos'] % (len(prem) + 1)
    cmp('reflexivity', '', prem[:pos] + [con] + prem[pos:], con, 'reflexive')
    if t.get('reflex_twice'):
        # the conclusion among several identical premises
        cmp('reflexivity', '', prem[:pos] + [con] + prem[pos:] + [con], con, 'reflexive')
    extra = A.from_json(t['extra'])
    epos = t['extra_pos'] % (len(prem) + 1)
    cmp('monotonicity', '', prem[:epos] + [extra] + prem[epos:], con, 'monotone')
    for tag, pairs in t['renamings'].items():
        mp = {A.from_json(a): A.from_json(b) for a, b in pairs}
        if not mp:
            continue
        cmp('renaming:' + tag, tag, [rename(p, mp) for p in prem], rename(con, mp), 'rename')
    return out, info


@st.composite
def renamings(draw, prem, con):
    atoms, consts, preds, vars_ = symbols([*prem, con])
    subs = [0, 0, 1, 2, 10]

    def inj(items, mk, maxi):
        pool = [mk(i, s) for s in (0, 1, 2, 10) for i in range(maxi + 1)]
        perm = draw(st.permutations(pool))
        return [(x, perm[k]) for k, x in enumerate(items)]
    ren = {}
    ren['atoms'] = inj(atoms, A.atom, 4)
    ren['constants'] = inj(consts, A.const, 3)
    ren['variables'] = inj(vars_, A.var, 3)
    # predicates: new (index, subscript), same arity, injective on (index, subscript)
    pool = [(i, s) for s in (0, 1, 2) for i in range(4)]
    perm = draw(st.permutations(pool))
    ren['predicates'] = [(('pred', p), ('pred', (perm[k][0], perm[k][1], p[2]))) for k, p in enumerate(preds)]
    ren['all'] = ren['atoms'] + ren['constants'] + ren['variables'] + ren['predicates']
    return {k: [[A.to_json(a), A.to_json(b)] for a, b in v if a != b] for k, v in ren.items()}


def shards(tier, seed_):
    n = 32 if tier == 'quick' else 128
    ex = 60 if tier == 'quick' else 400
    return [dict(seed=seed_, shard=i, examples=ex) for i in range(n)]


def run_shard(shard, acc):
    @seed(shard['seed'] * 1000 + shard['shard'])
    @settings(max_examples=shard['examples'], database=None, deadline=None, report_multiple_bugs=False,
              phases=[Phase.generate], suppress_health_check=list(HealthCheck))
    @given(st.data())
    def body(data):
        pname = ('generic', 'modal-heavy', 'quant-heavy', 'valid-biased', 'valid-biased', 'witness')[data.draw(st.integers(0, 5))]
        pred = {'modal-heavy': R.is_modal, 'quant-heavy': R.is_quantified, 'witness': R.is_quantified}.get(pname)
        logic = data.draw(gen.logic_name(pred))
        prof = PROFILES['modal-heavy' if (pname == 'valid-biased' and R.is_modal(logic)) else pname if pname in PROFILES else 'generic'].for_logic(logic)
        if pname == 'valid-biased':
            # monotonicity only bites on valid arguments: instances of standard valid forms in monotone contexts
            from . import c09
            prem, con = c09.wrapped_valid(data, logic)
        elif pname == 'witness':
            # sub-domain where only names and their order of appearance differ between variants: one literal per constant
            # (2-3 constants in a drawn order of appearance, each with its own predicate), an existential premise at a drawn
            # position, and the existential's body about one of the constants as conclusion -- the verdict hangs on the witness
            pool = [A.const(i, sub) for sub in (0, 1) for i in range(4)]
            start = data.draw(st.integers(0, len(pool) - 3))
            cs = list(data.draw(st.permutations(pool[start:start + 3])))[:data.draw(st.integers(2, 3))]
            prem = [A.pred((1 + k, 0, 1), c) for k, c in enumerate(cs)]
            x = A.var(0)
            ex = A.quant('Existential', x, A.pred((0, 0, 1), x))
            if data.draw(st.booleans()):
                ex = A.neg(A.quant('Universal', x, A.neg(A.pred((0, 0, 1), x))))
            prem.insert(data.draw(st.integers(0, len(prem))), ex)
            con = A.pred((0, 0, 1), cs[data.draw(st.integers(0, len(cs) - 1))])
        else:
            prem, con = data.draw(gen.argument(prof, 3))
        case = prover.mk_case(logic, prem, con, group=data.draw(st.booleans()), rank=data.draw(st.booleans()),
                              order=data.draw(st.integers(0, 7)), max_steps=MAX_STEPS)
        case['transforms'] = dict(
            reflex_pos=data.draw(st.integers(0, 3)), reflex_twice=data.draw(st.booleans()),
            extra=A.to_json(data.draw(gen.sentence(prof))), extra_pos=data.draw(st.integers(0, 3)),
            renamings=data.draw(renamings(prem, con)))
        res, info = check_case(case)
        if info.get('raised'):
            acc.count('build-raised (see C09)')
            return
        acc.inconclusive += info['limited']
        acc.case((logic, case['premises'], case['conclusion'], case['group'], case['rank'], case['order']),
                 nontrivial=info['pairs'] >= 2, classes=tuple({'base:' + info['base'], 'profile:' + pname, *info['kinds']}),
                 sample=prover.case_str(case) + f' => {info["base"]}; {info["pairs"]} comparable variants ({", ".join(sorted(set(info["kinds"])))})')
        acc.extra['variant_pairs'] = acc.extra.get('variant_pairs', 0) + info['pairs']
        for fp, d in res:
            acc.finding(fp, case, d)
    body()


def replay(case):
    return check_case(case)[0]
