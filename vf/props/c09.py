"""C09 -- the verdict does not depend on how the proof is searched."""
from __future__ import annotations

import traceback

from hypothesis import HealthCheck, Phase, given, seed, settings
from hypothesis import strategies as st

from .. import ast as A
from .. import gen
from .. import prover
from .. import refsem as R

ID = 'C09'
LEVEL = 'exploration'
RULE = ('Hypothesis arguments (generic / modal-heavy / quantifier-heavy profiles, and a validity-biased profile: instances of '
        'standard valid forms wrapped in monotone modal / propositional contexts with extra premises) x logic; for each argument the whole '
        'grid {group optim on/off} x {rank optim on/off} x {build(), step loop} is run, plus model building switched on (build and step loop), plus extra tie-break order seeds '
        'at the default options, plus a permutation and a duplication of the premises. Oracle: no configuration raises; '
        'the set of non-limited outcome classes (valid / invalid with a limit-free open branch) over all runs of the '
        'argument has at most one element. Non-trivial = at least two non-limited outcomes and at least two distinct '
        'step-history signatures in the grid; distinct by (logic, argument). Plus finite sub-domains enumerated completely: every 2- and '
        '3-element subset of a pool as the premise set under every permutation, per logic -- pools: literals (identity both ways round, '
        'self-identity, predications, a letter, negations), 12 short quantified sentences (universal / existential / negated, some introducing '
        'a new constant) x 4 conclusions, 12 short modal sentences x 4 conclusions (quick: 9 x 2, and triples only for classical literals) -- one verdict per set.')
ASSUMPTIONS = ['outcomes produced only by step / world / constant limits are not verdicts and are excluded (counted)']
MAX_STEPS = 200

PROFILES = {
    'generic': gen.Profile(w_atom=5, w_pred=3, w_ident=1, w_neg=4, w_assert=1, w_bin=7, w_modal=4, w_quant=3, max_depth=3),
    'modal-heavy': gen.Profile(w_atom=6, w_pred=1, w_neg=4, w_bin=4, w_modal=12, max_depth=3, natoms=2),
    'modal-deep': gen.Profile(w_atom=4, w_pred=0, w_neg=3, w_assert=0, w_bin=3, w_modal=14, w_quant=0, max_depth=5, natoms=2,
                              bin_ops=('Conjunction', 'Disjunction')),
    'identity-heavy': gen.Profile(w_atom=1, w_pred=6, w_ident=9, w_neg=5, w_assert=0, w_bin=2, w_modal=1, w_quant=0, max_depth=2,
                                  preds=((1, 0, 2), (0, 0, 1)), consts=(A.const(0), A.const(1), A.const(2))),
    'quant-heavy': gen.Profile(w_atom=2, w_pred=7, w_ident=1, w_neg=3, w_bin=5, w_modal=2, w_quant=8, max_depth=3,
                               consts=(A.const(1), A.const(0))),
}


def wrapped_valid(data, logic):
    """Arguments biased to validity (where an incomplete search flips the verdict): an instance of a standard
    valid form, its premises and conclusion wrapped in the same chain of monotone contexts, plus extra premises."""
    from . import c11
    sch = [(t, p, c) for t, p, c in c11.schemata() if all(c11.fragment_ok(logic, x) for x in (*p, c))]
    title, prem, con = sch[data.draw(st.integers(0, len(sch) - 1))]
    prof = PROFILES['generic'].for_logic(logic)
    atoms = sorted(set().union(*(A.atoms(x) for x in (*prem, con))))
    mp = {}
    for a in atoms:
        if data.draw(st.integers(0, 2)) == 0:
            mp[a] = data.draw(gen.sentence(prof, data.draw(st.integers(0, 2))))
    prem = [c11.subst_atoms(x, mp) for x in prem]
    con = c11.subst_atoms(con, mp)
    if len(prem) == 1:
        side = data.draw(gen.sentence(prof, 1))
        for _ in range(data.draw(st.integers(0, 3))):
            k = data.draw(st.integers(0, 3))
            if k == 0 and R.is_modal(logic):
                prem, con = [A.op('Necessity', prem[0])], A.op('Necessity', con)
            elif k == 1 and R.is_modal(logic):
                prem, con = [A.op('Possibility', prem[0])], A.op('Possibility', con)
            elif k == 2:
                prem, con = [A.op('Conjunction', prem[0], side)], A.op('Conjunction', con, side)
            elif k == 3:
                prem, con = [A.op('Disjunction', side, prem[0])], A.op('Disjunction', side, con)
    for _ in range(data.draw(st.integers(0, 2))):
        prem.insert(data.draw(st.integers(0, len(prem))), data.draw(gen.sentence(prof, data.draw(st.integers(0, 2)))))
    return prem, con


def where(e):
    tb = traceback.extract_tb(e.__traceback__)
    for f in reversed(tb):
        if '/pytableaux/' in f.filename:
            return f'{f.filename.rsplit("/", 1)[-1]}:{f.name}'
    return 'outside'


def configs(case):
    "[(label, dimension, kwargs)] -- the first is the default configuration."
    o0 = case['order']
    out = [('default', 'default', dict(group=True, rank=True, stepwise=False, order=o0))]
    for g in (True, False):
        for r in (True, False):
            for sw in (False, True):
                if (g, r, sw) == (True, True, False):
                    continue
                dim = '+'.join(d for d, on in (('group-off', not g), ('rank-off', not r), ('stepwise', sw)) if on)
                out.append((f'group={g},rank={r},stepwise={sw}', dim, dict(group=g, rank=r, stepwise=sw, order=o0)))
    out.append(('is_build_models=True', 'build-models', dict(group=True, rank=True, stepwise=False, order=o0, models=True)))
    out.append(('is_build_models=True,stepwise', 'build-models', dict(group=True, rank=True, stepwise=True, order=o0, models=True)))
    for k in case.get('orders', []):
        out.append((f'order={k}', 'order', dict(group=True, rank=True, stepwise=False, order=k)))
    return out


def check_case(case):
    logic, prem, con = prover.case_args(case)
    fam = R.base_of(logic) + '*'
    runs = []          # (label, dim, outcome, sig)
    out = []
    info = dict(limited=0)

    def one(label, dim, premises, kw):
        try:
            tab = prover.build(logic, premises, con, max_steps=case.get('max_steps', MAX_STEPS), **kw)
        except Exception as e:
            out.append((f'C09|raises|{fam}|{type(e).__name__}|{where(e)}',
                        f'{prover.case_str(case)} with {label}: build raised {type(e).__name__}: {e}'))
            return
        oc = prover.outcome(tab)
        if oc == 'limited':
            info['limited'] += 1
        runs.append((label, dim, oc, prover.history_sig(tab)))

    for label, dim, kw in configs(case):
        one(label, dim, prem, kw)
    perm = case.get('perm')
    if perm and len(prem) > 1:
        one('premises permuted', 'premise-order', [prem[i] for i in perm],
            dict(group=True, rank=True, stepwise=False, order=case['order']))
    dup = case.get('dup')
    if dup is not None and prem:
        one('premise duplicated', 'premise-multiplicity', prem + [prem[dup % len(prem)]],
            dict(group=True, rank=True, stepwise=False, order=case['order']))
    verdicts = {}
    for label, dim, oc, sig in runs:
        if oc != 'limited':
            verdicts.setdefault(oc, []).append((label, dim))
    if len(verdicts) > 1:
        # name the dimension(s) along which a run departs from the majority verdict
        major = max(verdicts, key=lambda k: len(verdicts[k]))
        for oc, lst in verdicts.items():
            if oc == major:
                continue
            dims = sorted({d for _, d in lst})
            out.append((f'C09|verdict-differs|{fam}|{dims[0]}',
                        f'{prover.case_str(case)}: {major} under {verdicts[major][0][0]} ({len(verdicts[major])} runs) but '
                        f'{oc} under {", ".join(l for l, _ in lst[:4])}'))
    info['nonlimited'] = sum(1 for r in runs if r[2] != 'limited')
    info['sigs'] = len({r[3] for r in runs})
    info['runs'] = len(runs)
    info['verdict'] = next(iter(verdicts)) if len(verdicts) == 1 else ('mixed' if verdicts else 'limited')
    return out, info


def literal_pool():
    a, b = A.const(0), A.const(1)
    F = (0, 0, 1)
    pos = [('P', 'Identity', (a, b)), ('P', 'Identity', (b, a)), ('P', 'Identity', (a, a)),
           ('P', F, (a,)), ('P', F, (b,)), A.atom(0)]
    return pos + [A.neg(x) for x in pos]


def small_pools(name):
    """{pool name: (premise pool, conclusions)} -- finite sub-domains in which premise order is the only thing that varies."""
    a, b, m = A.const(0), A.const(1), A.const(2)
    F, G = (0, 0, 1), (1, 0, 1)
    x = A.var(0)
    Fx, Gx = ('P', F, (x,)), ('P', G, (x,))
    pools = {'literal': (literal_pool(), [('P', F, (m,))])}
    if R.is_quantified(name):
        U = lambda body: ('Q', 'Universal', x, body)
        E = lambda body: ('Q', 'Existential', x, body)
        Gm = ('P', G, (m,))
        pool = [U(Fx), U(A.op('MaterialConditional', Fx, Gm)), U(A.op('Conditional', Fx, ('P', G, (b,)))), U(A.op('Disjunction', A.neg(Fx), Gx)),
                E(Fx), E(A.op('Conjunction', Fx, A.neg(Gx))), A.neg(E(Gx)), A.neg(U(Gx)), U(A.neg(Gx)),
                ('P', F, (a,)), A.neg(('P', G, (a,))), ('P', F, (b,))]
        pools['quantified'] = (pool, [Gm, ('P', G, (a,)), E(Gx), U(Gx)])
    if R.is_modal(name):
        N = lambda s_: A.op('Necessity', s_)
        P = lambda s_: A.op('Possibility', s_)
        p, q = A.atom(0), A.atom(1)
        pool = [N(p), P(p), N(A.op('MaterialConditional', p, q)), N(A.op('Conditional', p, q)), A.neg(N(q)), P(A.neg(q)), A.neg(P(q)),
                N(N(p)), P(N(p)), p, A.neg(q), N(A.op('Disjunction', A.neg(p), q))]
        pools['modal'] = (pool, [q, N(q), P(q), N(P(q))])
    return pools


def literal_sets(name, tier):
    """Yield (pool name, premises, conclusion): every 2-element (thorough, and quick for the classical family: and 3-element)
    subset of each pool as the premise set, each of the pool's conclusions; checked under every permutation."""
    from itertools import combinations
    for pname, (pool, cons) in small_pools(name).items():
        if tier == 'quick' and pname != 'literal':
            pool, cons = pool[:9], cons[:2]
        sizes = (2, 3) if (tier != 'quick' or (R.is_classical(name) and pname == 'literal')) else (2,)
        for r in sizes:
            for sub in combinations(pool, r):
                for con in cons:
                    yield pname, list(sub), con


def check_literal_set(case):
    from itertools import permutations
    logic, prem, con = prover.case_args(case)
    fam = R.base_of(logic) + '*'
    seen = {}
    out = []
    for perm in permutations(range(len(prem))):
        try:
            tab = prover.build(logic, [prem[i] for i in perm], con, max_steps=MAX_STEPS, group=True, rank=True, order=0)
        except Exception as e:
            out.append((f'C09|raises|{fam}|{type(e).__name__}|{where(e)}', f'{prover.case_str(case)} order {perm}: {e!r}'))
            continue
        oc = prover.outcome(tab)
        if oc != 'limited':
            seen.setdefault(oc, perm)
    if len(seen) > 1:
        out.append((f'C09|verdict-differs|{fam}|premise-order',
                    f'{prover.case_str(case)}: ' + ' but '.join(f'{oc} with the premises in order {list(p)}' for oc, p in sorted(seen.items()))))
    return out, seen


def shards(tier, seed_):
    n = 48 if tier == 'quick' else 128
    ex = 30 if tier == 'quick' else 250
    names = sorted(R.LOGICS)
    return [dict(literal_sets=names[i::16], tier=tier) for i in range(16)] + \
        [dict(seed=seed_, shard=i, examples=ex, norders=3 if tier == 'quick' else 12) for i in range(n)]


def run_shard(shard, acc):
    if 'literal_sets' in shard:
        for name in shard['literal_sets']:
            shown = set()
            for pname, prem, con in literal_sets(name, shard['tier']):
                case = prover.mk_case(name, prem, con, max_steps=MAX_STEPS)
                case['kind'] = 'literal-set'
                res, seen = check_literal_set(case)
                acc.case((name, case['premises'], case['conclusion'], 'small-set'), nontrivial=bool(seen),
                         classes=(f'profile:small-sets:{pname}', 'verdict:' + ('mixed' if len(seen) > 1 else next(iter(seen), 'limited'))),
                         sample=None if (pname, next(iter(seen), '')) in shown else prover.case_str(case) + f' => {sorted(seen)} over every premise order')
                shown.add((pname, next(iter(seen), '')))
                for fp, d in res:
                    acc.finding(fp, case, d)
        return
    @seed(shard['seed'] * 1000 + shard['shard'])
    @settings(max_examples=shard['examples'], database=None, deadline=None, report_multiple_bugs=False,
              phases=[Phase.generate], suppress_health_check=list(HealthCheck))
    @given(st.data())
    def body(data):
        pname = ('generic', 'modal-heavy', 'quant-heavy', 'valid-biased', 'valid-biased', 'modal-deep', 'identity-heavy')[data.draw(st.integers(0, 6))]
        pred = {'modal-heavy': R.is_modal, 'modal-deep': R.is_modal, 'quant-heavy': R.is_quantified, 'identity-heavy': R.is_classical}.get(pname)
        logic = data.draw(gen.logic_name(pred))
        if pname == 'valid-biased':
            prem, con = wrapped_valid(data, logic)
        else:
            prof = PROFILES[pname].for_logic(logic)
            prem, con = data.draw(gen.argument(prof, 3))
        case = prover.mk_case(logic, prem, con, order=data.draw(st.integers(0, 3)), max_steps=MAX_STEPS)
        case['orders'] = [data.draw(st.integers(4, 10 ** 6)) for _ in range(shard['norders'])]
        if len(prem) > 1:
            case['perm'] = data.draw(st.permutations(list(range(len(prem)))))
        if prem:
            case['dup'] = data.draw(st.integers(0, len(prem) - 1))
        res, info = check_case(case)
        nontriv = info['nonlimited'] >= 2 and info['sigs'] >= 2
        acc.inconclusive += info['limited']
        acc.case((logic, case['premises'], case['conclusion']), nontrivial=nontriv,
                 classes=('verdict:' + info['verdict'], 'profile:' + pname, f'distinct-histories>={min(info["sigs"], 4)}'),
                 sample=prover.case_str(case) + f' => {info["verdict"]} over {info["runs"]} runs, {info["sigs"]} distinct step histories')
        acc.extra['builds'] = acc.extra.get('builds', 0) + info['runs']
        for fp, d in res:
            acc.finding(fp, case, d)
    body()


def replay(case):
    if case.get('kind') == 'literal-set':
        return check_literal_set(case)[0]
    return check_case(case)[0]


def shrink_candidates(case):
    for c in prover.argument_shrinks(case):
        c = dict(c)
        c.pop('perm', None)
        yield c
