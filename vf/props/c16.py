"""C16 -- a tableau's bookkeeping is consistent at every step (stepped proofs, events, independent tree)."""
from __future__ import annotations

from hypothesis import HealthCheck, Phase, given, seed, settings
from hypothesis import strategies as st

from .. import ast as A
from .. import gen
from .. import prover
from .. import refsem as R

ID = 'C16'
LEVEL = 'exploration'
RULE = ('Hypothesis arguments (generic / modal-heavy / quantifier-heavy) x logic x options x tie-break order, driven through '
        'step() with listeners on every tableau event. After the trunk and after every step: trunk = premises + conclusion with '
        'the family\'s marking, in order; every branch\'s node list extends its previous list; closed branches never change; '
        'tab.open == the unclosed branches in order; a new branch starts as its parent\'s nodes at fork time; history grew by '
        'exactly the returned entry; recorded add / tick / close step numbers are monotone and not in the future; event counts '
        'match. After finish: an independently built trie of the branches is compared with tab.tree (leaves, paths, width, '
        'distinct nodes, per-structure totals, left/right numbering, open/closed flags) and tab.stats with counted values. '
        'Non-trivial = proof with >= 2 forks; distinct by (logic, argument, options, order).')
ASSUMPTIONS = ['the public step()/history/open/stat()/tree/stats API and the documented events are the observation points']
MAX_STEPS = 120

PROFILES = {
    'generic': gen.Profile(w_atom=5, w_pred=3, w_ident=1, w_neg=4, w_assert=1, w_bin=8, w_modal=4, w_quant=3, max_depth=3),
    'modal-heavy': gen.Profile(w_atom=6, w_pred=1, w_neg=4, w_bin=6, w_modal=10, max_depth=3, natoms=2),
    'quant-heavy': gen.Profile(w_atom=2, w_pred=7, w_ident=1, w_neg=3, w_bin=6, w_modal=2, w_quant=7, max_depth=3),
}


class Trie:
    def __init__(self):
        self.nodes = []
        self.children = []
        self.branches = []


def build_trie(branches, depth=0):
    "Independent reconstruction: group branches by common prefix of node objects."
    t = Trie()
    t.branches = list(branches)
    while True:
        heads = []
        for b in branches:
            if len(b) > depth and not any(b[depth] is h for h in heads):
                heads.append(b[depth])
        if len(heads) != 1 or any(len(b) <= depth for b in branches):
            break
        t.nodes.append(heads[0])
        depth += 1
    if len(branches) > 1:
        for h in heads:
            sub = [b for b in branches if len(b) > depth and b[depth] is h]
            t.children.append(build_trie(sub, depth))
    return t


def trie_stats(t):
    if not t.children:
        return dict(width=1, desc=0, total=len(t.nodes))
    cs = [trie_stats(c) for c in t.children]
    return dict(width=sum(c['width'] for c in cs), desc=sum(c['total'] for c in cs),
                total=len(t.nodes) + sum(c['total'] for c in cs))


def compare_tree(tab, tree, trie, path, out, depth=0, counter=None):
    ts = trie_stats(trie)
    where = '/'.join(map(str, path)) or 'root'
    if [id(n) for n in tree.nodes] != [id(n) for n in trie.nodes]:
        out.append(('C16|tree|nodes', f'structure {where}: nodes differ from the common prefix of its branches'))
        return
    if len(tree.children) != len(trie.children):
        out.append(('C16|tree|children', f'structure {where}: {len(tree.children)} children, branches split {len(trie.children)} ways'))
        return
    if tree.width != ts['width']:
        out.append(('C16|tree|width', f'structure {where}: width {tree.width}, counted {ts["width"]}'))
    if tree.descendant_node_count != ts['desc']:
        out.append(('C16|tree|descendant_node_count', f'structure {where}: descendant_node_count {tree.descendant_node_count}, counted {ts["desc"]}'))
    if tree.structure_node_count != ts['total']:
        out.append(('C16|tree|structure_node_count', f'structure {where}: structure_node_count {tree.structure_node_count}, counted {ts["total"]}'))
    if tree.depth != depth:
        out.append(('C16|tree|depth', f'structure {where}: depth {tree.depth}, expected {depth}'))
    if bool(tree.leaf) != (not trie.children):
        out.append(('C16|tree|leaf', f'structure {where}: leaf flag {tree.leaf}'))
    closed = [b.closed for b in trie.branches]
    if bool(tree.has_open) != (not all(closed)) or bool(tree.has_closed) != any(closed):
        out.append(('C16|tree|has_open_closed', f'structure {where}: has_open={tree.has_open} has_closed={tree.has_closed}, branches closed={closed}'))
    if not trie.children:
        b = trie.branches[0]
        if tree.branch_id != b.id:
            out.append(('C16|tree|branch_id', f'leaf {where}: branch_id does not name its branch'))
        if bool(tree.closed) != b.closed or bool(tree.open) == b.closed:
            out.append(('C16|tree|leaf_closed', f'leaf {where}: closed={tree.closed} open={tree.open}, branch closed={b.closed}'))
    # nested-set numbering
    if not (isinstance(tree.left, int) and isinstance(tree.right, int) and tree.left < tree.right):
        out.append(('C16|tree|left_right', f'structure {where}: left={tree.left} right={tree.right}'))
    else:
        prev = tree.left
        for c in tree.children:
            if not (isinstance(c.left, int) and prev < c.left < c.right < tree.right):
                out.append(('C16|tree|left_right', f'structure {where}: child interval [{c.left},{c.right}] not nested in order inside [{tree.left},{tree.right}]'))
                break
            prev = c.right
    for i, (c, tc) in enumerate(zip(tree.children, trie.children)):
        compare_tree(tab, c, tc, path + [i], out, depth + 1)


def expected_trunk(logic, prem, con):
    w = 0 if R.is_modal(logic) else None
    if R.is_classical(logic):
        return [(p, None, w) for p in prem] + [(A.neg(con), None, w)]
    return [(p, True, w) for p in prem] + [(con, False, w)]


def check_case(case):
    from pytableaux.proof import Tableau
    logic, prem, con = prover.case_args(case)
    fam = R.base_of(logic) + '*'
    out = []
    info = dict(forks=0, steps=0)

    def bad(tag, msg):
        if not any(fp == f'C16|{tag}' for fp, _ in out):
            out.append((f'C16|{tag}', f'{prover.case_str(case)}: {msg}'))

    try:
        tab = prover.make_tableau(logic, prem, con, group=case['group'], rank=case['rank'], order=case['order'],
                                  max_steps=case.get('max_steps', MAX_STEPS))
    except Exception:
        return [], dict(raised=True)
    ev = dict(branch_add=0, branch_close=0, node_add=0, node_tick=0, rule_apply=0, finish=0)
    E = Tableau.Events
    tab.on(E.AFTER_BRANCH_ADD, lambda b: ev.__setitem__('branch_add', ev['branch_add'] + 1))
    tab.on(E.AFTER_BRANCH_CLOSE, lambda b: ev.__setitem__('branch_close', ev['branch_close'] + 1))
    tab.on(E.AFTER_NODE_ADD, lambda n, b: ev.__setitem__('node_add', ev['node_add'] + 1))
    tab.on(E.AFTER_NODE_TICK, lambda n, b: ev.__setitem__('node_tick', ev['node_tick'] + 1))
    tab.on(E.AFTER_RULE_APPLY, lambda t: ev.__setitem__('rule_apply', ev['rule_apply'] + 1))
    tab.on(E.AFTER_FINISH, lambda t: ev.__setitem__('finish', ev['finish'] + 1))
    # trunk
    if len(tab) != 1:
        bad('trunk|branches', f'{len(tab)} branches after the trunk')
        return out, info
    got = [(A.from_lib(n['sentence']) if n.get('sentence') is not None else None, n.get('designated'), n.get('world')) for n in tab[0]]
    if got != expected_trunk(logic, prem, con):
        bad(f'trunk|{fam}', f'trunk nodes {got} != premises + conclusion with the family marking')
    snap = {tab[0]: [id(n) for n in tab[0]]}
    ticksnap = {tab[0]: {id(n) for n in tab[0] if tab[0].is_ticked(n)}}
    ticks_expected = 0
    was_closed = set()
    hist_len = 0
    new_nodes_expected = 0
    ticks_seen = 0
    try:
        while True:
            entry = tab.step()
            if entry is None:
                break
            info['steps'] += 1
            if len(tab.history) != hist_len + 1 or tab.history[-1] is not entry:
                bad('history', f'step {info["steps"]}: history grew by {len(tab.history) - hist_len}, last entry is not the returned one')
            hist_len = len(tab.history)
            if entry.rule is None or entry.target is None or entry.target.get('branch') is None:
                bad('history-entry', f'step {info["steps"]}: entry lacks rule/target/branch')
            # what is recorded while step i is performed carries the number i (the trunk is step 0)
            cur = len(tab.history)
            for b in tab:
                ids = [id(n) for n in b]
                if b in snap:
                    old = snap[b]
                    if ids[:len(old)] != old:
                        bad('branch-shrunk-or-rewritten', f'step {info["steps"]}: a branch does not extend its previous node list')
                    if b in was_closed and len(ids) != len(old):
                        bad('closed-branch-extended', f'step {info["steps"]}: a closed branch was extended')
                    new_nodes_expected += len(ids) - len(old)
                else:
                    p = b.parent
                    info['forks'] += 1
                    if p is None or p not in snap:
                        bad('fork-parent', f'step {info["steps"]}: a new branch has no known parent')
                    else:
                        old = snap[p]
                        if ids[:len(old)] != old:
                            bad('fork-prefix', f'step {info["steps"]}: a new branch does not start as its parent\'s nodes at fork time')
                        new_nodes_expected += len(ids) - len(old)
                # step numbers
                last = 0
                for n in b:
                    # the addition is recorded on the branch the node was added to (an ancestor for
                    # inherited nodes); a tick is recorded on the branch that ticked
                    holder, sa = b, None
                    while holder is not None:
                        try:
                            v = tab.stat(holder, n, 'STEP_ADDED')
                        except KeyError:
                            v = None
                        if isinstance(v, int) and not isinstance(v, bool):
                            sa = v
                            break
                        holder = holder.parent
                    if sa is None:
                        bad('stat-missing', f'step {info["steps"]}: no recorded STEP_ADDED for a node on its branch or any ancestor')
                        continue
                    if sa < last or sa > cur:
                        bad('stat-step-added', f'step {info["steps"]}: STEP_ADDED {sa} after {last}, current step {cur}')
                    last = sa
                    try:
                        stt = tab.stat(b, n, 'STEP_TICKED')
                    except KeyError:
                        stt = None
                    if stt is not None:
                        if not isinstance(stt, int) or stt < sa or stt > cur:
                            bad('stat-step-ticked', f'step {info["steps"]}: STEP_TICKED {stt}, added {sa}, current {cur}')
                        if not b.is_ticked(n):
                            bad('stat-ticked-flag', f'step {info["steps"]}: STEP_TICKED {stt} recorded but the node is not ticked')
                if b.closed:
                    sc = tab.stat(b, 'STEP_CLOSED')
                    if not isinstance(sc, int) or sc > cur or sc < last:
                        bad('stat-step-closed', f'step {info["steps"]}: STEP_CLOSED {sc}, last node added at {last}, current {cur}')
            oldticks = dict(ticksnap)
            for b in tab:
                now = {id(n) for n in b if b.is_ticked(n)}
                before = oldticks.get(b, oldticks.get(b.parent, set()) if b.parent is not None else set())
                ticks_expected += len(now - before)
                if before - now:
                    bad('untick', f'step {info["steps"]}: a ticked node became unticked')
                ticksnap[b] = now
            snap = {b: [id(n) for n in b] for b in tab}
            was_closed = {b for b in tab if b.closed}
            opens = [b for b in tab if not b.closed]
            if list(tab.open) != opens:
                bad('open-view', f'step {info["steps"]}: tab.open lists {len(tab.open)} branches, unclosed in order: {len(opens)}')
    except Exception as e:
        if '/verif/' in ''.join(__import__('traceback').format_tb(e.__traceback__)[-1:]):
            raise
        return out, dict(raised=True, **info)
    if not tab.finished:
        bad('not-finished', 'step() returned None but the tableau is not finished')
        return out, info
    # events
    if ev['rule_apply'] != len(tab.history):
        bad('events|rule_apply', f'{ev["rule_apply"]} AFTER_RULE_APPLY events for {len(tab.history)} steps')
    if ev['branch_add'] != len(tab) - 1:
        bad('events|branch_add', f'{ev["branch_add"]} AFTER_BRANCH_ADD events after the trunk for {len(tab) - 1} new branches')
    nclosed = sum(1 for b in tab if b.closed)
    if ev['branch_close'] != nclosed:
        bad('events|branch_close', f'{ev["branch_close"]} AFTER_BRANCH_CLOSE events for {nclosed} closed branches')
    if ev['node_add'] != new_nodes_expected:
        bad('events|node_add', f'{ev["node_add"]} AFTER_NODE_ADD events for {new_nodes_expected} appended nodes')
    if ev['node_tick'] != ticks_expected:
        bad('events|node_tick', f'{ev["node_tick"]} AFTER_NODE_TICK events for {ticks_expected} newly ticked (branch, node) pairs')
    if ev['finish'] != 1:
        bad('events|finish', f'{ev["finish"]} AFTER_FINISH events')
    # tree
    tree = tab.tree
    if tree is None:
        bad('tree|missing', 'finished without timeout but tree is None')
    else:
        tout = []
        trie = build_trie(list(tab))
        compare_tree(tab, tree, trie, [], tout)
        distinct = len({id(n) for b in tab for n in b})
        if getattr(tree, 'distinct_nodes', None) != distinct:
            tout.append(('C16|tree|distinct_nodes', f'tree.distinct_nodes {getattr(tree, "distinct_nodes", None)}, counted {distinct}'))
        if not tree.root:
            tout.append(('C16|tree|root', 'root flag not set'))
        seen = set()
        for fp, d in tout:
            if fp not in seen:
                seen.add(fp)
                out.append((fp, f'{prover.case_str(case)}: {d}'))
    # stats
    st_ = tab.stats
    want = dict(branches=len(tab), open_branches=len(tab.open), closed_branches=nclosed, steps=len(tab.history),
                distinct_nodes=len({id(n) for b in tab for n in b}),
                result='Valid' if tab.valid else 'Invalid' if tab.invalid else 'Completed' if tab.completed else 'Unfinished')
    for k, v in want.items():
        if st_.get(k) != v:
            bad(f'stats|{k}', f'stats[{k!r}] = {st_.get(k)!r}, counted {v!r}')
    return out, info


def shards(tier, seed_):
    n = 32 if tier == 'quick' else 128
    ex = 120 if tier == 'quick' else 800
    return [dict(seed=seed_, shard=i, examples=ex) for i in range(n)]


def run_shard(shard, acc):
    @seed(shard['seed'] * 1000 + shard['shard'])
    @settings(max_examples=shard['examples'], database=None, deadline=None, report_multiple_bugs=False,
              phases=[Phase.generate], suppress_health_check=list(HealthCheck))
    @given(st.data())
    def body(data):
        pname = ('generic', 'generic', 'modal-heavy', 'quant-heavy')[data.draw(st.integers(0, 3))]
        pred = {'modal-heavy': R.is_modal, 'quant-heavy': R.is_quantified}.get(pname)
        logic = data.draw(gen.logic_name(pred))
        prem, con = data.draw(gen.argument(PROFILES[pname].for_logic(logic), 3))
        case = prover.mk_case(logic, prem, con, group=data.draw(st.booleans()), rank=data.draw(st.booleans()),
                              order=data.draw(st.integers(0, 7)), max_steps=MAX_STEPS)
        res, info = check_case(case)
        if info.get('raised'):
            acc.count('build-raised (see C09)')
            for fp, d in res:
                acc.finding(fp, case, d)
            return
        acc.case((logic, case['premises'], case['conclusion'], case['group'], case['rank'], case['order']),
                 nontrivial=info['forks'] >= 2, classes=(f'forks>={min(info["forks"], 3)}', 'profile:' + pname),
                 sample=prover.case_str(case) + f' ({info["steps"]} steps, {info["forks"]} forks)')
        acc.extra['steps_observed'] = acc.extra.get('steps_observed', 0) + info['steps']
        for fp, d in res:
            acc.finding(fp, case, d)
    body()


def replay(case):
    return check_case(case)[0]


def shrink_candidates(case):
    yield from prover.argument_shrinks(case)
