"""C01 -- a 'valid' verdict is sound in every logic (countermodel-first generation, soundness tracking)."""
from __future__ import annotations

from hypothesis import HealthCheck, Phase, given, seed, settings
from hypothesis import strategies as st

from .. import ast as A
from .. import gen
from .. import prover
from .. import refsem as R
from ..attrib import attribute
from ..track import Tracker

ID = 'C01'
LEVEL = 'exploration'
RULE = ('model-first generation: draw a logic, draw a total reference model M for it (1-3 worlds obeying the frame '
        'condition, 1-3 constants, values for 3 atoms, F/1, G/2 and, in the many-valued logics, = and E! as ordinary '
        'predicates; classical: identity an equivalence respected by every extension), draw ~8 sentences of depth <= 3 '
        'from the fragment (uninterpreted sentences get drawn values; in a third of the cases four of them are instances of one drawn '
        'top-level form -- operator / quantifier / modal operator, plain or negated -- so that every (logic, form, side) cell is met by many '
        'models per run; logic D, the only one with the Serial rule, gets a modal-heavy share of its own; in K, D, T, S4, S5 a third of the cases draw from the finite sub-domain of literals over two constants -- identity both ways round, in half of them also a predication, negations -- under 0-2 modal operators), evaluate them in M with vf/refsem.py and form an '
        'argument whose premises are designated at w0 and whose conclusion is not (second stream: a standard valid form '
        'weakened in one or two places, with a countermodel found among drawn models); x {group optim} x {rank optim} x '
        'tie-break order seed. Oracle: M is a countermodel by construction, so the tableau must not report valid; and, '
        'stepping through the proof, every rule application must leave a branch that M still satisfies (soundness '
        'lemma; witnesses may denote any element / world). Every case is non-trivial (a countermodel exists); distinct '
        'by (logic, argument, options, order).')
ASSUMPTIONS = [
    'vf/refsem.py is the documented semantics (tables decided by C07; quantifier / modal clauses quoted from the docs)',
    'limited outcomes (step limit 250, world / constant limit flags) are inconclusive for the verdict oracle',
    'FDE family: lattice reference',
]
MAX_STEPS = 250


def profile_for(logic, consts, ident_heavy=False):
    q = R.is_quantified(logic)
    m = R.is_modal(logic)
    if ident_heavy:
        return gen.Profile(consts=tuple(consts), w_atom=1, w_pred=6, w_ident=8, w_neg=3, w_assert=0, w_bin=4,
                           w_modal=8 if m else 0, w_quant=2 if q else 0, max_depth=2)
    return gen.Profile(
        consts=tuple(consts), w_atom=4, w_pred=5, w_ident=2, w_neg=4, w_assert=1, w_bin=8,
        w_modal=5 if m else 1, w_quant=4 if q else 1, max_depth=3)


def run_case(case, M, acc=None):
    """Build stepwise with the tracker. Returns (findings, info)."""
    logic, prem, con = prover.case_args(case)
    fam = R.base_of(logic) + '*'
    info = {}
    try:
        tab = prover.make_tableau(logic, prem, con, group=case['group'], rank=case['rank'], order=case['order'],
                                  max_steps=case.get('max_steps', MAX_STEPS))
    except Exception as e:
        info['raised'] = True
        return [], info         # construction errors are C09's business
    argc = set()
    for s in (*prem, con):
        argc |= A.constants(s)
    tr = Tracker(M, tab, sorted(argc))
    if not tr.trunk_ok:
        raise AssertionError(f'harness: drawn model does not satisfy the trunk of {prover.case_str(case)}')
    try:
        while True:
            entry = tab.step()
            if entry is None:
                break
            tr.after_step(entry)
    except Exception as e:
        info['raised'] = True
        return [], info
    out = []
    info['outcome'] = prover.outcome(tab)
    info['steps'] = len(tab.history)
    info['capped'] = tr.capped
    info['rules'] = prover.rules_used(tab)
    if tr.problem is not None:
        kind, tag, desc = tr.problem
        out.append((f'C01|unsound|{fam}|{tag}', f'{prover.case_str(case)}: {desc}; countermodel {M.describe()}'))
    if tab.valid is True:
        tags = [tr.problem[1]] if tr.problem else attribute(tab, 'unsound')
        for tag in tags:
            fp = f'C01|unsound|{fam}|{tag}'
            if not any(fp == f for f, _ in out):
                out.append((fp, f'{prover.case_str(case)}: reported valid, countermodel {M.describe()}'))
    return out, info


def _weaken(data, s):
    "One semantic-weakening edit somewhere in a sentence (the result is usually no longer entailed)."
    subs = list(A.subsentences(s))
    t = subs[data.draw(st.integers(0, len(subs) - 1))]
    k = t[0]
    if k == 'Q':
        new = ('Q', 'Existential' if t[1] == 'Universal' else 'Universal', t[2], t[3])
    elif k == 'O' and t[1] in A.MODAL_OPS:
        new = ('O', 'Possibility' if t[1] == 'Necessity' else 'Necessity', t[2])
    elif k == 'O' and A.OPS[t[1]] == 2:
        choice = data.draw(st.integers(0, 2))
        if choice == 0:
            new = ('O', t[1], t[2][::-1])
        elif choice == 1:
            others = [o for o in gen.BIN_OPS if o != t[1]]
            new = ('O', others[data.draw(st.integers(0, len(others) - 1))], t[2])
        else:
            new = t[2][data.draw(st.integers(0, 1))]
            if A.free_variables(new) - A.free_variables(t):
                new = t
    elif k == 'O':
        new = t[2][0]
    else:
        new = A.neg(t)
    return gen._replace_first(s, t, new)


def near_valid_argument(data, logic):
    "A standard valid form (examples + first-order / modal / identity schemata), weakened in one or two places."
    from . import c11
    sch = [(t, p, c) for t, p, c in c11.schemata() if all(c11.fragment_ok(logic, x) for x in (*p, c))]
    title, prem, con = sch[data.draw(st.integers(0, len(sch) - 1))]
    prem = list(prem)
    for _ in range(data.draw(st.integers(1, 2))):
        which = data.draw(st.integers(0, len(prem) + 1))
        if which < len(prem):
            if data.draw(st.integers(0, 3)) == 0:
                prem.pop(which)
            else:
                prem[which] = _weaken(data, prem[which])
        else:
            con = _weaken(data, con)
    return prem, con


def shards(tier, seed_):
    n = 16 if tier == 'quick' else 64
    ex = 800 if tier == 'quick' else 4000
    return [dict(seed=seed_, shard=i, examples=ex) for i in range(n)]


def run_shard(shard, acc):
    names = sorted(R.LOGICS)

    @seed(shard['seed'] * 1000 + shard['shard'])
    @settings(max_examples=shard['examples'], database=None, deadline=None, report_multiple_bugs=False,
              phases=[Phase.generate], suppress_health_check=list(HealthCheck))
    @given(st.data())
    def body(data):
        logic = data.draw(gen.logic_name())
        serial_share = data.draw(st.integers(0, 11)) == 0
        if serial_share:
            logic = 'D'         # the only logic with the Serial rule: its own share, modal-heavy sentences
        V = R.values(logic)
        if not serial_share and data.draw(st.integers(0, 3)) == 0:
            # second stream: a near-miss of a standard valid form; search a countermodel among drawn models
            prem, con = near_valid_argument(data, logic)
            M = None
            for _ in range(12):
                cand = data.draw(gen.model(logic, natoms=2, preds=((0, 0, 1), (1, 0, 1), (2, 0, 2))))
                cand.opaque_fill = lambda w, s: V[data.draw(st.integers(0, len(V) - 1))]
                cand.default = V[0]
                try:
                    ok = cand.is_countermodel(prem, con, 0) and set().union(*(A.constants(x) for x in (*prem, con))) <= set(cand.consts)
                except (KeyError, ValueError):
                    ok = False
                if ok and (not R.is_classical(logic) or cand.classical_ok()):
                    M = cand
                    break
            if M is None:
                acc.count('near-valid: no countermodel among 12 drawn models')
                return
            case = prover.mk_case(logic, prem, con, group=data.draw(st.booleans()), rank=data.draw(st.booleans()),
                                  order=data.draw(st.integers(0, 15)), max_steps=MAX_STEPS)
            case['model'] = M.to_json()
            res, info = run_case(case, M)
            if info.get('raised'):
                acc.count('build-raised (see C09)')
                return
            if info['outcome'] == 'limited':
                acc.inconclusive += 1
            acc.case((logic, case['premises'], case['conclusion'], case['group'], case['rank'], case['order']),
                     nontrivial=True, classes=(info['outcome'], 'stream:near-valid'),
                     sample=prover.case_str(case) + f' => {info["outcome"]}; countermodel {M.describe()}')
            for fp, d in res:
                acc.finding(fp, case, d)
            return
        M = data.draw(gen.model(logic))
        M.opaque_fill = lambda w, s: V[data.draw(st.integers(0, len(V) - 1))]
        # identity rules and closures exist in the classical family only: half of its cases are identity-heavy
        ident_heavy = data.draw(st.integers(0, 1 if R.is_classical(logic) and R.is_quantified(logic) else 4)) == 0
        prof = profile_for(logic, M.consts, ident_heavy)
        if serial_share:
            prof = gen.Profile(consts=tuple(M.consts), w_atom=5, w_pred=1, w_ident=0, w_neg=4, w_assert=0, w_bin=3, w_modal=12, w_quant=0,
                               max_depth=4, natoms=2)
        sents = [data.draw(gen.sentence(prof)) for _ in range(data.draw(st.integers(4, 8)))]
        modal_lit = (not serial_share and R.is_classical(logic) and R.is_modal(logic) and R.is_quantified(logic)
                     and data.draw(st.integers(0, 2)) == 0)
        if modal_lit:
            # finite sub-domain of the five classical modal logics: literals over two constants (identity both ways round,
            # a predication, negations) under 0-2 modal operators -- literals of *different* worlds meeting on one branch
            # is what the closure rules have to keep apart (extensions are per world)
            a, b = (M.consts[0], M.consts[1]) if len(M.consts) >= 2 else (M.consts[0], M.consts[0])
            lits = [A.pred('Identity', a, b), A.pred('Identity', b, a), A.pred((0, 0, 1), a), A.pred((0, 0, 1), b)]
            if data.draw(st.booleans()):
                lits = lits[:2]         # the two identities only: converse pairs meet often
            lits += [A.neg(x) for x in lits]
            sents = []
            for _ in range(6):
                x = lits[data.draw(st.integers(0, len(lits) - 1))]
                for _ in range((0, 1, 1, 2)[data.draw(st.integers(0, 3))]):
                    x = A.op(A.MODAL_OPS[data.draw(st.integers(0, 1))], x)
                sents.append(x)
        shaped = not modal_lit and data.draw(st.integers(0, 2)) == 0
        if shaped:
            # rule-first: several instances of one drawn top-level form, so that every (logic, form, side) cell is met by
            # many models per run -- the forms are what the rules are written for
            shapes = gen.shapes_for(prof)
            shape = shapes[data.draw(st.integers(0, len(shapes) - 1))]
            sents = [data.draw(gen.shaped_sentence(prof, shape)) for _ in range(4)] + sents[:3]
        des, und = [], []
        for s in sents:
            (des if M.designates(s, 0) else und).append(s)
        if not und:
            for s in sents:
                ns = A.neg(s)
                if not M.designates(ns, 0):
                    und.append(ns)
                    break
        if not und:
            acc.count('drawn-without-undesignated-sentence')
            return
        con = und[data.draw(st.integers(0, len(und) - 1))]
        k = data.draw(st.integers(0, min(3, len(des))))
        prem = []
        pool = list(des)
        if ident_heavy:
            # identity literals that hold in M first: they are what drives the identity rule
            idents = [s for s in pool if 'Identity' in A.predicates(s)]
            for s in idents[:2]:
                pool.remove(s)
                prem.append(s)
            k = max(0, k - len(prem))
        for _ in range(k):
            prem.append(pool.pop(data.draw(st.integers(0, len(pool) - 1))))
        case = prover.mk_case(logic, prem, con, group=data.draw(st.booleans()), rank=data.draw(st.booleans()),
                              order=data.draw(st.integers(0, 15)), max_steps=MAX_STEPS)
        case['model'] = M.to_json()
        res, info = run_case(case, M)
        if info.get('raised'):
            acc.count('build-raised (see C09)')
            return
        if info['outcome'] == 'limited':
            acc.inconclusive += 1
        cls = [info['outcome'], 'modal-logic' if R.is_modal(logic) else 'non-modal-logic']
        rules = info['rules']
        if any('Existential' in r or 'Universal' in r for r in rules): cls.append('uses-quantifier-rule')
        if any('Possibility' in r or 'Necessity' in r for r in rules): cls.append('uses-modal-rule')
        if any('Identity' in r for r in rules): cls.append('uses-identity-rule')
        if info['capped']: cls.append('tracker-capped')
        if ident_heavy: cls.append('identity-heavy-profile')
        if shaped: cls.append('rule-first')
        if modal_lit: cls.append('modal-literal-subdomain')
        acc.case((logic, case['premises'], case['conclusion'], case['group'], case['rank'], case['order']),
                 nontrivial=True, classes=cls,
                 sample=prover.case_str(case) + f' => {info["outcome"]} in {info["steps"]} steps; countermodel {M.describe()}')
        for fp, d in res:
            acc.finding(fp, case, d)
    body()


def replay(case):
    M = R.Model.from_json(case['model'])
    logic, prem, con = prover.case_args(case)
    if not M.is_countermodel(prem, con, 0):
        return []          # (shrunk) argument no longer refuted by the stored model: not a witness
    if R.is_classical(logic) and not M.classical_ok():
        return []
    return run_case(case, M)[0]


def shrink_candidates(case):
    for c in prover.argument_shrinks(case):
        yield c
