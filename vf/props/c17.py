"""C17 -- limits and lifecycle: three-valued verdicts, bounded work, locked state (model-based op sequences, fake clock)."""
from __future__ import annotations

from hypothesis import HealthCheck, Phase, given, seed, settings
from hypothesis import strategies as st

from .. import ast as A
from .. import gen
from .. import prover
from .. import refsem as R

ID = 'C17'
LEVEL = 'exploration'
RULE = ('Hypothesis draws an argument x logic x options, measures the unlimited proof length n under the same tie-break order, '
        'then (1) every positive step limit 1..n+1 (quick: a drawn subset; thorough: all) and the values None / 0 / negative; '
        '(2) a time limit under a harness-owned fake clock, alone and combined with a step limit (absent / None / 0 / negative / n+1 / n+50 / n-1); (3) a drawn sequence of operations step / finish / build / set argument / '
        'set logic / rules.append / rules.clear / groups.create applied to the tableau, checked after every operation against a small '
        'reference model of the lifecycle (fresh -> started -> finished): flag algebra, verdicts None when premature or without '
        'argument, len(history) <= limit, limit n+1 == unlimited (history signature and verdict), timeout raises ProofTimeoutError and '
        'leaves the tableau finished without tree, finished tableaux are inert (observable snapshot unchanged), setters and rule '
        'mutation raise IllegalStateError once started. Non-trivial = a limit hit strictly inside the proof, or a call after finish; '
        'distinct by (logic, argument, options, limit / ops).')
ASSUMPTIONS = ['wall-clock time never decides anything: pytableaux.tools.timing._time is replaced by a counter owned by the harness']
MAX_N = 60


class FakeClock:
    "Every reading advances the clock by ``tick`` seconds."

    def __init__(self, tick=0.001):
        self.t = 1000.0
        self.tick = tick

    def __call__(self):
        self.t += self.tick
        return self.t

    def __enter__(self):
        from pytableaux.tools import timing
        self.mod = timing
        self.orig = timing._time
        timing._time = self
        return self

    def __exit__(self, *a):
        self.mod._time = self.orig


def snapshot(tab):
    stats = {k: v for k, v in dict(tab.stats).items() if not k.endswith('_ms')}
    return dict(finished=tab.finished, completed=tab.completed, premature=tab.premature, valid=tab.valid,
                invalid=tab.invalid, history=len(tab.history), branches=len(tab), open=len(tab.open),
                tree=id(tab.tree), stats=stats, nodes=[len(b) for b in tab], models=len(tab.models),
                step=tab.current_step)


def flag_algebra(tab, has_arg):
    out = []
    f, c, p = tab.finished, tab.completed, tab.premature
    if c and p:
        out.append('completed and premature together')
    if (c or p) and not f:
        out.append('completed/premature without finished')
    if f and not (c or p):
        out.append('finished but neither completed nor premature')
    v, i = tab.valid, tab.invalid
    if not c or not has_arg:
        if v is not None or i is not None:
            out.append(f'verdict valid={v} invalid={i} although completed={c}, has argument={has_arg}')
    else:
        if v is None or i is None or bool(v) == bool(i):
            out.append(f'completed with argument but valid={v} invalid={i}')
        elif bool(v) != (len(tab.open) == 0):
            out.append(f'valid={v} with {len(tab.open)} open branches')
    return out


def build_kw(case):
    return dict(group=case['group'], rank=case['rank'], order=case['order'])


def natural_run(case):
    logic, prem, con = prover.case_args(case)
    tab = prover.build(logic, prem, con, max_steps=None, **build_kw(case))
    return tab


def check_limits(case):
    """(1) step limits."""
    from pytableaux.errors import ProofTimeoutError
    logic, prem, con = prover.case_args(case)
    out = []
    info = dict(inside=0, after=0)

    def bad(tag, msg):
        fp = f'C17|{tag}'
        if not any(f == fp for f, _ in out):
            out.append((fp, f'{prover.case_str(case)}: {msg}'))
    n = case['n']
    base_sig, base_out = case['sig'], case['outcome']
    for lim in case['limits']:
        tab = prover.build(logic, prem, con, max_steps=lim, **build_kw(case))
        for m in flag_algebra(tab, True):
            bad('flags', f'max_steps={lim}: {m}')
        if not tab.finished:
            bad('not-finished', f'max_steps={lim}: build() returned an unfinished tableau')
        unlimited = lim is None or lim <= 0
        if not unlimited and len(tab.history) > lim:
            bad('limit-exceeded', f'max_steps={lim}: {len(tab.history)} steps recorded')
        if unlimited or lim > n:
            if prover.history_sig(tab) != base_sig or prover.outcome(tab) != base_out or tab.premature:
                bad('limit-changes-proof', f'max_steps={lim} (natural length {n}): history/verdict differ from the unlimited run '
                    f'({len(tab.history)} steps, {prover.outcome(tab)}, premature={tab.premature})')
        elif lim < n:
            info['inside'] += 1
            if not tab.premature or tab.valid is not None or tab.invalid is not None or tab.completed:
                bad('premature-verdict', f'max_steps={lim} < natural length {n}: premature={tab.premature} completed={tab.completed} '
                    f'valid={tab.valid} invalid={tab.invalid}')
            if len(tab.history) != lim:
                bad('limit-not-reached', f'max_steps={lim} < natural length {n}: stopped after {len(tab.history)} steps')
            if tab.tree is None:
                bad('limit-no-tree', f'max_steps={lim}: step-limited tableau has no tree')
        # inert after finish
        s0 = snapshot(tab)
        r1 = tab.step()
        tab.finish()
        tab.build()
        info['after'] += 1
        if r1 is not None or snapshot(tab) != s0:
            bad('finished-not-inert', f'max_steps={lim}: step()/finish()/build() on the finished tableau changed it or returned an entry')
    # (2) time limit under the fake clock, alone and together with a step limit (the web interface always sets both)
    t = case.get('timeout')
    if t is not None:
        ms = case.get('timeout_max_steps', 'absent')
        kw = {} if ms == 'absent' else dict(max_steps=ms)
        step_limited = isinstance(ms, int) and 0 < ms < n
        what = f'build_timeout={t}' + ('' if ms == 'absent' else f', max_steps={ms}')
        with FakeClock(tick=case.get('tick', 0.001)):
            tab = prover.make_tableau(logic, prem, con, build_timeout=t, **kw, **build_kw(case))
            raised = aborted = False
            try:
                while True:
                    # the limit is checked at the start of a step against the build time accumulated so far
                    before = tab.timers.build.elapsed_ms()
                    try:
                        entry = tab.step()
                    except ProofTimeoutError:
                        raised = True
                        if before <= t:
                            bad('timeout-early', f'{what}: ProofTimeoutError although only {before} ms had elapsed')
                        break
                    if before > t:
                        bad('timeout-not-raised', f'{what}: a step ran although {before} ms had already elapsed')
                        aborted = True
                        break
                    if entry is None:
                        break
            except Exception as e:
                bad('timeout-other-exception', f'{what}: raised {type(e).__name__} instead of ProofTimeoutError')
            for m in flag_algebra(tab, True):
                bad('flags', f'{what}: {m}')
            if raised:
                info['inside'] += 1
                if not tab.finished or not tab.premature or tab.valid is not None or tab.invalid is not None:
                    bad('timeout-state', f'{what}: after the timeout finished={tab.finished} premature={tab.premature} valid={tab.valid}')
                if tab.tree is not None:
                    bad('timeout-tree', f'{what}: tree built after a timeout')
                s0 = snapshot(tab)
                try:
                    r1 = tab.step(); tab.finish(); tab.build()
                    if r1 is not None or snapshot(tab) != s0:
                        bad('finished-not-inert', f'{what}: calls after the timeout changed the tableau')
                except Exception as e:
                    bad('timeout-not-inert', f'{what}: a call after the timeout raised {type(e).__name__}')
            elif aborted or ms == n:
                pass        # already reported / a step limit equal to the natural length: the property makes no claim
            elif step_limited:
                info['inside'] += 1
                if not tab.finished or not tab.premature or tab.valid is not None or tab.invalid is not None or len(tab.history) != ms:
                    bad('premature-verdict', f'{what} (natural length {n}, time limit not hit): finished={tab.finished} premature={tab.premature} '
                        f'valid={tab.valid} invalid={tab.invalid} after {len(tab.history)} steps')
            else:
                if tab.premature or not tab.finished:
                    bad('timeout-silent', f'{what}: no ProofTimeoutError but premature={tab.premature}')
                if prover.history_sig(tab) != base_sig:
                    bad('timeout-changes-proof', f'{what}: no limit hit, but the history differs from the unlimited run')
    return out, info


OPS = ('step', 'step', 'step', 'finish', 'build', 'set_argument', 'set_logic', 'rules_append', 'rules_clear',
       'groups_create', 'rule_group_clear', 'build_trunk')


def check_ops(case):
    """(3) operation sequences against the lifecycle model."""
    from pytableaux.errors import IllegalStateError
    from pytableaux.proof import Tableau
    from pytableaux.proof.rules import NoopRule
    logic, prem, con = prover.case_args(case)
    out = []
    info = dict(after=0)

    def bad(tag, msg):
        fp = f'C17|{tag}'
        if not any(f == fp for f, _ in out):
            out.append((fp, f'{prover.case_str(case)} ops {case["ops"][:i + 1] if "i" in dir() else ""}: {msg}'))
    from ..lib import get_logic
    get_logic(logic)
    arg = A.arg_to_lib(prem, con)
    with_arg = case.get('with_argument', True)
    prover.reseed(case['order'])
    opts = dict(is_group_optim=case['group'], is_rank_optim=case['rank'])
    if case.get('op_max_steps') is not None:
        opts['max_steps'] = case['op_max_steps']
    tab = Tableau(logic, arg if with_arg else None, **opts)
    if not with_arg:
        # hand-added branch: started, never a verdict
        from pytableaux.proof import sdwnode
        b = tab.branch()
        b.append(sdwnode(A.to_lib(con), None if R.is_classical(logic) else True, 0 if R.is_modal(logic) else None))
    state = 'started'       # trunk built (or branch added): started
    prev_hist = 0
    for i, op in enumerate(case['ops']):
        before = snapshot(tab) if tab.finished else None
        was_finished = tab.finished
        exc = None
        ret = None
        try:
            if op == 'step':
                ret = tab.step()
            elif op == 'finish':
                tab.finish()
            elif op == 'build':
                tab.build()
            elif op == 'set_argument':
                tab.argument = arg
            elif op == 'set_logic':
                tab.logic = logic
            elif op == 'rules_append':
                tab.rules.append(NoopRule)
            elif op == 'rules_clear':
                tab.rules.clear()
            elif op == 'groups_create':
                tab.rules.groups.create('extra')
            elif op == 'rule_group_clear':
                tab.rules.groups[0].clear()
            elif op == 'build_trunk':
                tab.build_trunk()
        except IllegalStateError as e:
            exc = e
        except Exception as e:
            bad(f'op-raises|{op}|{type(e).__name__}', f'{op} raised {type(e).__name__}: {e}')
            break
        # "started" as the library documents it: the trunk is built or a rule has been applied
        started = with_arg or prev_hist > 0
        skip_inert = False
        if op in ('rules_append', 'rules_clear', 'groups_create', 'rule_group_clear'):
            # rule collections lock as soon as the first branch exists
            if exc is None:
                bad(f'not-locked|{op}', f'{op} succeeded although the tableau has a branch (finished={was_finished})')
        elif op in ('set_argument', 'set_logic', 'build_trunk'):
            if exc is None and started:
                bad(f'not-locked|{op}', f'{op} succeeded on a started tableau (finished={was_finished})')
            elif exc is None:
                # a hand-made, never-stepped tableau accepted the call: it now has an argument / trunk
                skip_inert = True
                if op == 'set_argument':
                    with_arg = True
        elif exc is not None:
            bad(f'op-raises|{op}|IllegalStateError', f'{op} raised IllegalStateError: {exc}')
        if was_finished and not skip_inert:
            info['after'] += 1
            if ret is not None or snapshot(tab) != before:
                bad('finished-not-inert', f'{op} on a finished tableau changed it')
        for m in flag_algebra(tab, with_arg):
            bad('flags', f'after {op}: {m}')
        if len(tab.history) < prev_hist:
            bad('history-shrunk', f'after {op}: history shrank')
        if op == 'step' and not was_finished:
            if ret is None and not tab.finished:
                bad('step-none-unfinished', 'step() returned None but the tableau is not finished')
            if ret is not None and len(tab.history) != prev_hist + 1:
                bad('step-history', 'step() returned an entry but history did not grow by one')
        if op in ('finish', 'build') and not tab.finished:
            bad('not-finished', f'{op}() left the tableau unfinished')
        lim = case.get('op_max_steps')
        if lim is not None and lim > 0 and len(tab.history) > lim:
            bad('limit-exceeded', f'max_steps={lim}: {len(tab.history)} steps after {op}')
        prev_hist = len(tab.history)
    return out, info


def check_case(case):
    if case['kind'] == 'limits':
        return check_limits(case)
    return check_ops(case)


def shards(tier, seed_):
    n = 16 if tier == 'quick' else 64
    return [dict(seed=seed_, shard=i, examples=120 if tier == 'quick' else 600, all_limits=(tier == 'thorough')) for i in range(n)]


def run_shard(shard, acc):
    prof = gen.Profile(w_atom=5, w_pred=3, w_ident=1, w_neg=4, w_assert=1, w_bin=8, w_modal=4, w_quant=3, max_depth=3)

    @seed(shard['seed'] * 1000 + shard['shard'])
    @settings(max_examples=shard['examples'], database=None, deadline=None, report_multiple_bugs=False,
              phases=[Phase.generate], suppress_health_check=list(HealthCheck))
    @given(st.data())
    def body(data):
        logic = data.draw(gen.logic_name())
        prem, con = data.draw(gen.argument(prof.for_logic(logic), 3))
        base = prover.mk_case(logic, prem, con, group=data.draw(st.booleans()), rank=data.draw(st.booleans()),
                              order=data.draw(st.integers(0, 7)))
        which = data.draw(st.integers(0, 2))
        if which < 2:
            # natural length under the same schedule (bounded generation: skip monsters)
            try:
                tab = prover.build(logic, prem, con, max_steps=MAX_N + 1, **build_kw(base))
            except Exception:
                acc.count('build-raised (see C09)')
                return
            if tab.premature or len(tab.history) > MAX_N:
                acc.inconclusive += 1
                return
            n = len(tab.history)
            case = dict(base, kind='limits', n=n, sig=prover.history_sig(tab), outcome=prover.outcome(tab))
            if shard['all_limits']:
                lims = list(range(1, n + 2))
            else:
                lims = sorted({data.draw(st.integers(1, n + 1)) for _ in range(3)} | {n + 1, max(1, n)})
            case['limits'] = lims + [None, 0, -data.draw(st.integers(1, 5))]
            if data.draw(st.booleans()):
                case['timeout'] = data.draw(st.integers(1, 400))
                case['tick'] = data.draw(st.sampled_from([0.0001, 0.001, 0.01]))
                k = data.draw(st.integers(0, 7))
                case['timeout_max_steps'] = ('absent', 'absent', None, 0, -1, n + 1, n + 50, max(1, n - 1))[k]
            res, info = check_case(case)
            acc.case((logic, case['premises'], case['conclusion'], case['group'], case['rank'], case['order'], tuple(map(str, case['limits'])), case.get('timeout')),
                     nontrivial=info['inside'] > 0 or info['after'] > 0, classes=('limits', f'natural-length>={min(n, 20) // 5 * 5}'),
                     sample=prover.case_str(case) + f' natural length {n}, limits {case["limits"]}, timeout {case.get("timeout")}')
        else:
            ops = [OPS[data.draw(st.integers(0, len(OPS) - 1))] for _ in range(data.draw(st.integers(3, 14)))]
            case = dict(base, kind='ops', ops=ops, with_argument=data.draw(st.integers(0, 4)) > 0,
                        op_max_steps=data.draw(st.sampled_from([None, None, 1, 3, 7, 0])))
            if case['op_max_steps'] in (None, 0) and 'build' in ops:
                # bounded generation: an unlimited build() of an explosive proof (P3, nested biconditionals ...) would
                # run for hours; only arguments whose whole proof is short are driven without a step limit
                try:
                    probe = prover.build(logic, prem, con, max_steps=MAX_N + 1, **build_kw(base))
                except Exception:
                    acc.count('build-raised (see C09)')
                    return
                if probe.premature or len(probe.history) > MAX_N:
                    acc.inconclusive += 1
                    return
            try:
                res, info = check_case(case)
            except Exception as e:
                if 'group_score' in repr(e):
                    return
                raise
            acc.case((logic, case['premises'], case['conclusion'], tuple(ops), case['with_argument'], case['op_max_steps']),
                     nontrivial=info['after'] > 0, classes=('ops', 'with-argument' if case['with_argument'] else 'without-argument'),
                     sample=prover.case_str(case) + f' ops: {" ".join(ops)}')
        for fp, d in res:
            acc.finding(fp, case, d)
    body()


def replay(case):
    return check_case(case)[0]
