"""C12 -- sentences and arguments survive a write/parse round trip; rendering is injective."""
from __future__ import annotations

from itertools import product

from hypothesis import HealthCheck, Phase, given, seed, settings
from hypothesis import strategies as st

from .. import ast as A
from .. import gen

ID = 'C12'
LEVEL = 'exploration'
EXHAUSTIVE = {'quick': True, 'thorough': True}
RULE = ('Hypothesis sentences of the parsers\' language (closed, non-vacuous, no re-binding, one arity per symbol; all operators and '
        'quantifiers, system predicates, indexes 0..max, subscripts 0/1/9/10/12345, arity 1-4, depth <= 6) and arguments of 0-4 such '
        'premises. Oracle: (a) Parser(polish)(LexWriter(polish, text, ascii)(s)) == s; (b) Argument(arg.argstr()) == arg, also '
        'right after failed Argument(...) calls that used the same predicate symbols with other arities; (c) an '
        'independent renderer for the documented standard ASCII alphabet (outer parentheses optional, random extra whitespace, '
        'identity prefix or infix) followed by Parser(standard) returns s, also with a fresh auto-declaring parser and with a parser '
        'given the exact predicates; (d) injectivity: per (notation, format, dialect) x standard-writer option set a dictionary '
        'rendered -> sentence over all generated sentences, four one-point neighbours of each (one parameter changed, two swapped, one operator, '
        'operands swapped, one letter) plus an exhaustive small universe (depth <= 2 over 2 letters, 2 constants, '
        'F/1, F/2, G/2, H/3, H/4, =; max_infix in {0, 3, 5}): two different sentences with one string is a violation. Non-trivial = a sentence with a subscript >= 10, '
        'an infix identity, or a nested binary operator; distinct by sentence.')
ASSUMPTIONS = ['the documented alphabets are the parse tables of lang/_symdata.py as transcribed in vf/ast.py std()/pol()']

SUBS = [0, 0, 0, 1, 9, 10, 12345]


def profile(draw):
    consts = tuple(A.const(draw(st.integers(0, 3)), draw(st.sampled_from(SUBS))) for _ in range(3))
    vars_ = (A.var(0, draw(st.sampled_from(SUBS))), A.var(1), A.var(2, draw(st.sampled_from(SUBS))), A.var(3, 10))
    preds = tuple({(i, draw(st.sampled_from(SUBS))): draw(st.integers(1, 4)) for i in range(4)}.items())
    preds = tuple((k[0], k[1], a) for k, a in preds)
    return gen.Profile(natoms=5, preds=preds, consts=consts, vars=vars_, w_atom=4, w_pred=6, w_ident=3, w_neg=4, w_assert=1,
                       w_bin=8, w_modal=3, w_quant=4, max_depth=draw(st.sampled_from([2, 3, 4, 6])))


def atom_subscripts(draw, s):
    "give some atoms a subscript"
    mp = {}
    for a in sorted(A.atoms(s)):
        mp[a] = A.atom(a[1], draw(st.sampled_from(SUBS)))
    def rec(x):
        if x[0] == 'A':
            return mp[x]
        if x[0] == 'O':
            return ('O', x[1], tuple(rec(c) for c in x[2]))
        if x[0] == 'Q':
            return ('Q', x[1], x[2], rec(x[3]))
        return x
    return rec(s)


def with_ws(draw, text):
    "insert random extra whitespace between characters (the parsers skip it anywhere between symbols and digits)"
    out = []
    for ch in text:
        out.append(ch)
        if draw(st.integers(0, 5)) == 0:
            out.append(' ' * draw(st.integers(1, 2)))
    if draw(st.integers(0, 3)) == 0:
        out.insert(0, ' ')
    return ''.join(out)


def nontrivial(s):
    subs = [x[2] for x in A.subsentences(s) if x[0] == 'A'] + [p[2] for p in A.params_prefix(s)]
    if any(v >= 10 for v in subs):
        return True
    for x in A.subsentences(s):
        if x[0] == 'P' and x[1] == 'Identity':
            return True
        if x[0] == 'O' and A.OPS[x[1]] == 2 and any(c[0] == 'O' and A.OPS[c[1]] == 2 for c in x[2]):
            return True
    return False


CONFIGS = None


def configs():
    "[(notation, format, dialect, opts)] for every loaded string table x standard-writer option sets."
    global CONFIGS
    if CONFIGS is None:
        from pytableaux.lang import Notation
        out = []
        for notn in Notation:
            for fmt, dialects in sorted(notn.formats.items()):
                for dia in sorted(dialects):
                    if notn.name == 'standard':
                        for dp, ii, mi in product((True, False), (True, False), (0, 3, 5)):
                            out.append((notn.name, fmt, dia, dict(drop_parens=dp, identity_infix=ii, max_infix=mi)))
                    else:
                        out.append((notn.name, fmt, dia, {}))
        CONFIGS = out
    return CONFIGS


_WRITERS = {}


def writer(cfg):
    key = (cfg[0], cfg[1], cfg[2], tuple(sorted(cfg[3].items())))
    w = _WRITERS.get(key)
    if w is None:
        from pytableaux.lang import LexWriter
        w = _WRITERS[key] = LexWriter(cfg[0], cfg[1], cfg[2], **cfg[3])
    return w


def check_roundtrip(s, variants):
    """variants: list of (kind, text) standard renderings produced by the independent renderer."""
    from pytableaux.lang import LexWriter, Parser, Predicates
    out = []

    def bad(tag, msg):
        fp = f'C12|{tag}'
        if not any(f == fp for f, _ in out):
            out.append((fp, f'{A.pol(s)}: {msg}'))
    try:
        x = A.to_lib(s)
    except Exception as e:
        bad(f'construct-raises|{type(e).__name__}', f'{e!r}')
        return out
    # (a) polish writer -> polish parser
    try:
        text = LexWriter('polish', 'text', 'ascii')(x)
        if text != A.pol(s):
            bad('polish-writer', f'library writes {text!r}, the documented alphabet gives {A.pol(s)!r}')
        back = Parser('polish')(text)
        if A.from_lib(back) != s or back != x:
            bad('polish-roundtrip', f'{text!r} parses back to {A.pol(A.from_lib(back))}')
    except Exception as e:
        bad(f'polish-roundtrip-raises|{type(e).__name__}', f'{e!r}')
    # (c) independent standard renderings
    preds = [A.pred_to_lib(p) for p in sorted(A.predicates(s), key=str) if not isinstance(p, str)]
    for kind, text in variants:
        for pk, mk in (('auto', lambda: Parser('standard')), ('declared', lambda: Parser('standard', Predicates(preds), auto_preds=False))):
            try:
                back = mk()(text)
                if A.from_lib(back) != s:
                    bad(f'standard-parse|{kind}', f'{text!r} ({pk} predicates) parses to {A.std(A.from_lib(back))}, it denotes {A.std(s)}')
            except Exception as e:
                bad(f'standard-parse-raises|{kind}|{type(e).__name__}', f'{text!r} ({pk} predicates): {e!r}')
    return out


def poison_strings(prem, con):
    """Canonical-looking strings that must fail to parse and that use the argument's predicate symbols with another
    arity: a failed Argument(...) call must leave nothing behind."""
    out = []
    for p in sorted(set().union(*(A.predicates(x) for x in (*prem, con))), key=str):
        if isinstance(p, str):
            continue
        other = p[2] + 1 if p[2] < 3 else p[2] - 1
        out.append(A.pol(('P', (p[0], p[1], other), tuple([A.const(0)] * other))) + ':Fx')
    return out or ['Fmn:Gx']


def check_argument(prem, con, poison=False):
    from pytableaux.lang import Argument
    out = []
    if poison:
        from pytableaux.errors import ParseError
        for bad_text in poison_strings(prem, con):
            try:
                Argument(bad_text)
                out.append(('C12|argstr-accepts-ill-formed', f'Argument({bad_text!r}) did not raise'))
            except ParseError:
                pass
            except Exception as e:
                out.append((f'C12|argstr-raises|{type(e).__name__}', f'Argument({bad_text!r}): {e!r}'))
        try:
            Argument(':'.join(A.pol(x) for x in (con, *prem)), title=3)
        except Exception:
            pass
    try:
        arg = A.arg_to_lib(prem, con)
        text = arg.argstr()
        want = ':'.join(A.pol(x) for x in (con, *prem))
        if text != want:
            out.append(('C12|argstr-text', f'argstr {text!r}, documented alphabet gives {want!r}'))
        back = Argument(text)
        if not (back == arg) or [A.from_lib(p) for p in back.premises] != list(prem) or A.from_lib(back.conclusion) != con:
            out.append(('C12|argstr-roundtrip', f'Argument({text!r}) != the argument it was written from'))
    except Exception as e:
        out.append((f'C12|argstr-raises|{type(e).__name__}', f'{A.show_arg(prem, con)}: {e!r}'))
    return out


class Injectivity:
    def __init__(self):
        self.tables = {}

    def add(self, s, x=None):
        out = []
        if x is None:
            x = A.to_lib(s)
        for cfg in configs():
            try:
                text = writer(cfg)(x)
            except Exception as e:
                out.append((f'C12|writer-raises|{cfg[0]}|{cfg[1]}|{type(e).__name__}', f'{A.pol(s)} with {cfg}: {e!r}', None))
                continue
            key = (cfg[0], cfg[1], cfg[2], tuple(sorted(cfg[3].items())))
            t = self.tables.setdefault(key, {})
            other = t.setdefault(text, s)
            if other != s:
                out.append((f'C12|collision|{cfg[0]}|{cfg[1]}.{cfg[2]}', f'{A.pol(s)} and {A.pol(other)} both render to {text!r} with {cfg}', other))
        return out


def neighbours(draw, s, k=4):
    """Sentences that differ from s at exactly one point (one parameter, two parameters swapped, one operator, operands
    swapped, one letter): the inputs on which a writer that drops or merges information collides."""
    out = []
    paths = []

    def walk(x, path):
        paths.append((path, x))
        if x[0] == 'O':
            for i, c in enumerate(x[2]):
                walk(c, path + (i,))
        elif x[0] == 'Q':
            walk(x[3], path + (0,))
    walk(s, ())

    def put(x, path, new):
        if not path:
            return new
        if x[0] == 'O':
            return ('O', x[1], tuple(put(c, path[1:], new) if i == path[0] else c for i, c in enumerate(x[2])))
        return ('Q', x[1], x[2], put(x[3], path[1:], new))
    for _ in range(k):
        path, x = paths[draw(st.integers(0, len(paths) - 1))]
        if x[0] == 'A':
            y = A.atom((x[1] + 1) % 5, x[2]) if draw(st.booleans()) else A.atom(x[1], x[2] + 1)
        elif x[0] == 'P':
            ps = list(x[2])
            i = draw(st.integers(0, len(ps) - 1))
            if len(ps) > 1 and draw(st.booleans()):
                j = draw(st.integers(0, len(ps) - 1))
                ps[i], ps[j] = ps[j], ps[i]
            elif ps[i][0] == 'c':
                ps[i] = A.const((ps[i][1] + 1) % 4, ps[i][2]) if draw(st.booleans()) else A.const(ps[i][1], ps[i][2] + 1)
            y = ('P', x[1], tuple(ps))
        elif x[0] == 'O':
            n = len(x[2])
            if n == 2 and draw(st.booleans()):
                y = ('O', x[1], (x[2][1], x[2][0]))
            else:
                same = [o for o in A.OPS if A.OPS[o] == n and o != x[1]]
                y = ('O', same[draw(st.integers(0, len(same) - 1))], x[2])
        else:
            y = ('Q', 'Existential' if x[1] == 'Universal' else 'Universal', x[2], x[3])
        t = put(s, path, y)
        if t != s:
            out.append(t)
    return out


def small_universe():
    a, b = A.const(0), A.const(1)
    F1, F2, G2 = (0, 0, 1), (0, 0, 2), (1, 0, 2)
    H3, H4 = (2, 0, 3), (2, 1, 4)
    leaves = [A.atom(0), A.atom(1), ('P', F1, (a,)), ('P', F1, (b,)), ('P', F2, (a, b)), ('P', F2, (a, a)),
              ('P', G2, (a, b)), ('P', G2, (b, a)), ('P', 'Identity', (a, b)), ('P', 'Identity', (a, a))]
    leaves += [('P', H3, ps) for ps in product((a, b), repeat=3)] + [('P', H4, ps) for ps in product((a, b), repeat=4)]
    un = [o for o in A.OPS if A.OPS[o] == 1]
    bi = [o for o in A.OPS if A.OPS[o] == 2]
    d1 = list(leaves) + [A.op(o, s) for o in un for s in leaves] + [A.op(o, s, t) for o in bi for s in leaves[:6] for t in leaves[:6]]
    x = A.var(0)
    d1 += [('Q', q, x, ('P', F1, (x,))) for q in A.QUANTS] + [('Q', q, x, ('P', G2, (x, a))) for q in A.QUANTS]
    d2 = list(d1) + [A.op(o, s) for o in un for s in d1[len(leaves):]]
    core = d1[:40]
    d2 += [A.op(o, s, t) for o in ('Conjunction', 'Conditional') for s in core for t in core[:12]]
    return d2


def run_universe(shard, acc):
    inj = Injectivity()
    uni = small_universe()
    for s in uni:
        res = inj.add(s)
        acc.case(('universe', s), nontrivial=nontrivial(s), classes=('injectivity-universe',))
        for fp, d, other in res:
            acc.finding(fp, dict(kind='collision', a=A.to_json(s), b=A.to_json(other) if other else None), d)
    acc.extra['renderings'] = acc.extra.get('renderings', 0) + len(uni) * len(configs())


def run_random(shard, acc):
    inj = Injectivity()

    @seed(shard['seed'] * 1000 + shard['shard'])
    @settings(max_examples=shard['examples'], database=None, deadline=None, report_multiple_bugs=False,
              phases=[Phase.generate], suppress_health_check=list(HealthCheck))
    @given(st.data())
    def body(data):
        prof = profile(data.draw)
        s = atom_subscripts(data.draw, data.draw(gen.sentence(prof)))
        variants = []
        for infix in (False, True):
            base = A.std(s, top=data.draw(st.booleans()), infix_identity=infix, ws=data.draw(st.sampled_from([' ', '', '  '])))
            variants.append(('prefix-identity' if not infix else 'infix-identity', base))
        variants.append(('extra-whitespace', with_ws(data.draw, A.std(s, top=False, infix_identity=data.draw(st.booleans())))))
        variants.append(('infix-predicates', A.std(s, top=data.draw(st.booleans()), infix_identity=data.draw(st.booleans()), infix_preds=True)))
        res = check_roundtrip(s, variants)
        case = dict(kind='sentence', sentence=A.to_json(s), variants=variants)
        acc.case(('s', s), nontrivial=nontrivial(s), classes=('sentence', f'depth={A.depth(s)}'),
                 sample=f'{A.pol(s)}  /  {variants[-1][1]!r}')
        for fp, d in res:
            acc.finding(fp, case, d)
        for t in [s] + neighbours(data.draw, s):
            for fp, d, other in inj.add(t):
                acc.finding(fp, dict(kind='collision', a=A.to_json(t), b=A.to_json(other) if other else None), d)
        if data.draw(st.integers(0, 3)) == 0:
            n = data.draw(st.integers(0, 4))
            prem = []
            while len(prem) < n:
                p = atom_subscripts(data.draw, data.draw(gen.sentence(prof, data.draw(st.integers(0, 3)))))
                if A.one_arity_per_symbol([s, *prem, p]):
                    prem.append(p)
            poison = data.draw(st.booleans())
            res = check_argument(prem, s, poison)
            acc.case(('arg', tuple(prem), s, poison), nontrivial=len(prem) > 0, classes=('argument', 'after-failed-calls' if poison else 'fresh'))
            for fp, d in res:
                acc.finding(fp, dict(kind='argument', premises=[A.to_json(p) for p in prem], conclusion=A.to_json(s), poison=poison), d)
    body()
    acc.extra['renderings'] = acc.extra.get('renderings', 0) + sum(len(t) for t in inj.tables.values())


def shards(tier, seed_):
    n = 16 if tier == 'quick' else 64
    return [dict(kind='universe')] + [dict(kind='rand', seed=seed_, shard=i, examples=300 if tier == 'quick' else 2000) for i in range(n)]


def run_shard(shard, acc):
    (run_universe if shard['kind'] == 'universe' else run_random)(shard, acc)


def replay(case):
    if case['kind'] == 'sentence':
        return check_roundtrip(A.from_json(case['sentence']), [tuple(v) for v in case['variants']])
    if case['kind'] == 'argument':
        return check_argument([A.from_json(p) for p in case['premises']], A.from_json(case['conclusion']), case.get('poison', False))
    inj = Injectivity()
    out = []
    for key in ('b', 'a'):
        if case.get(key):
            out += [(fp, d) for fp, d, _ in inj.add(A.from_json(case[key]))]
    return out
