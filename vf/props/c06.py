"""C06 -- new constants and new worlds are always fresh."""
from __future__ import annotations

from itertools import product

import hypothesis
from hypothesis import HealthCheck, Phase, given, seed, settings
from hypothesis import strategies as st
from hypothesis.stateful import RuleBasedStateMachine, invariant, precondition, rule, run_state_machine_as_test

from .. import ast as A
from .. import gen
from .. import prover
from .. import refsem as R

ID = 'C06'
LEVEL = 'exploration'
EXHAUSTIVE = {'quick': True, 'thorough': True}
RULE = ('(1) exhaustive: every history of <= 4 appends over a 7-item alphabet of sentence / access nodes (constants '
        'a,b,c,b1 at worlds 0-3), with a copy taken after every prefix and diverging appends on the copy; '
        '(2) Hypothesis rule-based state machine over the Branch API (append sentence node, append access node, copy, '
        'continue on any copy), up to 30 steps; (3) whole proofs of random first-order / modal arguments in random '
        'logics, stepped, with Branch.new_constant / new_world wrapped by the harness and every step compared with a snapshot of the '
        'branch taken before it. Oracle: the returned constant / world '
        'does not occur in any node of that branch, computed by walking the nodes; and every witness step -- a step that consumes '
        '(ticks) a quantified node and instantiates it with a constant not in that node, or consumes a modal node / is the Serial rule '
        'and adds an access node leading out of the node\'s world -- uses a constant / world that did not occur on the branch before '
        'the step, whether or not the rule asked the branch for it; (4) every quantifier shape (quantifier x negated x designation) per logic on a '
        'hand-made branch where a constant already occurs -- in modal logics also at another world than the shape. Non-trivial = a history in which '
        'a constant that sorts before an earlier one is appended, or a copy followed by divergent appends; or a proof '
        'that instantiates at least one witness. Distinct by history / (logic, argument).')
ASSUMPTIONS = ['the walk over node sentences (vf/ast.py from_lib + constants) is the reference for "occurs on the branch"']

CONST = {n: c for n, c in zip('abcd', (A.const(0), A.const(1), A.const(2), A.const(3)))}
B1 = A.const(1, 1)
F1, G2 = (0, 0, 1), (1, 0, 2)

ALPHABET = [
    ('s', ('P', F1, (CONST['a'],)), 0),
    ('s', ('P', F1, (CONST['b'],)), 1),
    ('s', ('P', F1, (CONST['c'],)), 0),
    ('s', ('P', G2, (CONST['b'], CONST['a'])), 2),
    ('s', ('P', F1, (B1,)), 0),
    ('a', 0, 1),
    ('a', 2, 3),
]


def mk_node(item, modal=True):
    from pytableaux.proof import anode, sdwnode
    if item[0] == 'a':
        return anode(item[1], item[2])
    return sdwnode(A.to_lib(item[1]), True, item[2] if modal else None)


def walk(branch):
    "Reference: constants and worlds occurring in the nodes of the branch."
    consts, worlds = set(), set()
    for n in branch:
        s = n.get('sentence')
        if s is not None:
            consts |= A.constants(A.from_lib(s))
        for k in ('world', 'world1', 'world2'):
            v = n.get(k)
            if isinstance(v, int):
                worlds.add(v)
    return consts, worlds


def fresh_violations(branch, tag):
    out = []
    consts, worlds = walk(branch)
    c = A.from_lib(branch.new_constant())
    if c in consts:
        out.append((f'C06|stale-constant|{tag}', f'new_constant() = {A.std(c)} occurs on the branch (constants {sorted(map(A.std, consts))})'))
    w = branch.new_world()
    if w in worlds:
        out.append((f'C06|stale-world|{tag}', f'new_world() = {w} occurs on the branch (worlds {sorted(worlds)})'))
    pub_c = {A.from_lib(x) for x in branch.constants}
    if pub_c != consts:
        out.append((f'C06|constants-view|{tag}', f'branch.constants {sorted(map(A.std, pub_c))} != walked {sorted(map(A.std, consts))}'))
    if set(branch.worlds) != worlds:
        out.append((f'C06|worlds-view|{tag}', f'branch.worlds {sorted(branch.worlds)} != walked {sorted(worlds)}'))
    return out


def item_json(it):
    return [it[0], A.to_json(it[1]) if it[0] == 's' else it[1], it[2]]


def item_from_json(j):
    return (j[0], A.from_json(j[1]) if j[0] == 's' else j[1], j[2])


def run_history(ops):
    """ops: list of ['append', branch-index, item] | ['copy', branch-index]. Returns violations."""
    from pytableaux.proof import Branch
    branches = [Branch()]
    out = []
    for i, op in enumerate(ops):
        if op[0] == 'copy':
            src = branches[op[1] % len(branches)]
            branches.append(src.copy(parent=src))
        else:
            b = branches[op[1] % len(branches)]
            b.append(mk_node(item_from_json(op[2])))
        for bi, b in enumerate(branches):
            for fp, d in fresh_violations(b, 'history'):
                out.append((fp, f'after op {i} ({op[0]}) on branch {bi}: {d}'))
        if out:
            break
    return out


def history_nontrivial(ops):
    seen_max = None
    copied = False
    diverged = False
    for op in ops:
        if op[0] == 'copy':
            copied = True
            continue
        it = item_from_json(op[2])
        if copied:
            diverged = True
        if it[0] == 's':
            cs = A.constants(it[1])
            if seen_max is not None and cs and min(cs) < seen_max:
                return True
            if cs:
                seen_max = max(cs) if seen_max is None else max(seen_max, max(cs))
    return copied and diverged


# ------------------------------------------------------------------ exhaustive histories

def exhaustive_histories(maxlen):
    items = [item_json(it) for it in ALPHABET]
    for n in range(1, maxlen + 1):
        for combo in product(range(len(items)), repeat=n):
            yield [['append', 0, items[i]] for i in combo]


def run_exhaustive(shard, acc):
    items = [item_json(it) for it in ALPHABET]
    k, n = shard['k'], shard['n']
    for idx, ops in enumerate(exhaustive_histories(shard['maxlen'])):
        if idx % n != k:
            continue
        res = run_history(ops)
        acc.case(('exh', ops), nontrivial=history_nontrivial(ops), classes=('exhaustive-history',),
                 sample='appends: ' + ' ; '.join(_show_item(item_from_json(o[2])) for o in ops))
        for fp, d in res:
            acc.finding(fp, dict(kind='history', ops=ops), d)
        if res:
            continue
        # copy after the full prefix, then one divergent append on each side
        if len(ops) < shard['maxlen']:
            continue
        for j in (0, 3, 5):
            ops2 = ops[:-1] + [['copy', 0], ['append', 1, items[j]], ops[-1]]
            res = run_history(ops2)
            acc.case(('exh-copy', ops2), nontrivial=True, classes=('exhaustive-copy-history',))
            for fp, d in res:
                acc.finding(fp, dict(kind='history', ops=ops2), d)


def _show_item(it):
    if it[0] == 'a':
        return f'w{it[1]}Rw{it[2]}'
    return f'{A.show(it[1])} @w{it[2]}'


# ------------------------------------------------------------------ state machine

def make_machine(acc):
    const_st = st.builds(A.const, st.integers(0, 3), st.sampled_from([0, 0, 0, 1, 2]))

    sent_st = st.one_of(
        st.builds(lambda c: ('P', F1, (c,)), const_st),
        st.builds(lambda c, d: ('P', G2, (c, d)), const_st, const_st),
        st.builds(lambda c, d: A.op('Conjunction', ('P', F1, (c,)), A.neg(('P', 'Identity', (c, d)))), const_st, const_st),
        st.builds(lambda c: ('Q', 'Existential', A.var(0), ('P', G2, (A.var(0), c))), const_st),
        st.just(A.atom(0)))

    class BranchMachine(RuleBasedStateMachine):
        def __init__(self):
            super().__init__()
            from pytableaux.proof import Branch
            self.branches = [Branch()]
            self.ops = []
            self.dead = False

        @rule(i=st.integers(0, 7), s=sent_st, w=st.integers(0, 3))
        def append_sentence(self, i, s, w):
            if self.dead:
                return
            op = ['append', i, item_json(('s', s, w))]
            self.ops.append(op)
            self.branches[i % len(self.branches)].append(mk_node(('s', s, w)))

        @rule(i=st.integers(0, 7), w1=st.integers(0, 4), w2=st.integers(0, 4))
        def append_access(self, i, w1, w2):
            if self.dead:
                return
            self.ops.append(['append', i, item_json(('a', w1, w2))])
            self.branches[i % len(self.branches)].append(mk_node(('a', w1, w2)))

        @precondition(lambda self: len(self.branches) < 6)
        @rule(i=st.integers(0, 7))
        def copy(self, i):
            if self.dead:
                return
            self.ops.append(['copy', i])
            src = self.branches[i % len(self.branches)]
            self.branches.append(src.copy(parent=src))

        @invariant()
        def fresh(self):
            if self.dead:
                return
            for bi, b in enumerate(self.branches):
                for fp, d in fresh_violations(b, 'history'):
                    acc.finding(fp, dict(kind='history', ops=list(self.ops)), f'branch {bi} after {len(self.ops)} ops: {d}')
                    self.dead = True

        def teardown(self):
            acc.case(('sm', self.ops), nontrivial=history_nontrivial(self.ops), classes=('state-machine-history',),
                     sample=f'{len(self.ops)} ops, {len(self.branches)} branches: ' + ' ; '.join(
                         ('copy b%d' % o[1]) if o[0] == 'copy' else f'b{o[1]}+=' + _show_item(item_from_json(o[2]))
                         for o in self.ops[:8]))

    return BranchMachine


def run_machine(shard, acc):
    M = make_machine(acc)
    run_state_machine_as_test(
        seed(shard['seed'] * 1000 + shard['shard'])(M),
        settings=settings(max_examples=shard['examples'], stateful_step_count=30, database=None, deadline=None,
                          report_multiple_bugs=False, phases=[Phase.generate],
                          suppress_health_check=list(HealthCheck)))


# ------------------------------------------------------------------ whole proofs

class Monitor:
    "Wrap Branch.new_constant / new_world for the duration of a proof."

    def __init__(self):
        self.calls = 0
        self.violations = []

    def __enter__(self):
        from pytableaux.proof import Branch
        self.Branch = Branch
        self.orig_c, self.orig_w = Branch.new_constant, Branch.new_world
        mon = self

        def new_constant(b):
            c = mon.orig_c(b)
            mon.calls += 1
            consts, _ = walk(b)
            ca = A.from_lib(c)
            if ca in consts:
                mon.violations.append(('C06|stale-constant|proof', f'new_constant() = {A.std(ca)} occurs on the branch'))
            return c

        def new_world(b):
            w = mon.orig_w(b)
            mon.calls += 1
            _, worlds = walk(b)
            if w in worlds:
                mon.violations.append(('C06|stale-world|proof', f'new_world() = {w} occurs on the branch'))
            return w
        Branch.new_constant, Branch.new_world = new_constant, new_world
        return self

    def __exit__(self, *a):
        self.Branch.new_constant, self.Branch.new_world = self.orig_c, self.orig_w


def _quantified_or_modal(s):
    "('Q' | 'M' | None) for a sentence AST that is a (negated / asserted ...) quantified or modal sentence at the top."
    x = s
    while x[0] == 'O' and x[1] in ('Negation', 'Assertion'):
        x = x[2][0]
    if x[0] == 'Q':
        return 'Q'
    if x[0] == 'O' and x[1] in ('Possibility', 'Necessity'):
        return 'M'
    return None


def witness_violations(tab_entry, before, desc):
    """The step just applied (history entry) against the snapshot taken before it ({branch: (nodes, consts, worlds)}).
    A step is a *witness step* when it consumed (ticked) a quantified node and its additions mention a constant that
    is not in that node's sentence, or consumed a modal node / is the Serial rule and its additions contain an access node
    leading out of the node's world: the constant / the world reached must not have occurred on the branch before."""
    out = []
    entry = tab_entry
    tgt = entry.target
    if entry.rule is None or tgt is None:
        return out
    branch = tgt.get('branch')
    node = tgt.get('node')
    if branch is None:
        return out
    # the branch the rule fired on may have been extended itself, and forked into children that copy it
    snap = before.get(id(branch))
    if snap is None:
        return out
    n0, consts0, worlds0 = snap
    rname = type(entry.rule).__name__
    tab = entry.rule.tableau
    grown = [b for b in tab if id(b) == id(branch) or (id(b) not in before and getattr(b, 'parent', None) is branch)]
    s = node.get('sentence') if node is not None else None
    kind = _quantified_or_modal(A.from_lib(s)) if s is not None else None
    ticked = node is not None and any(b.is_ticked(node) for b in grown)
    for b in grown:
        added = list(b)[n0:]
        if kind == 'Q' and ticked:
            tconsts = A.constants(A.from_lib(s))
            mentioned = set()
            for n in added:
                x = n.get('sentence')
                if x is not None:
                    mentioned |= A.constants(A.from_lib(x))
            new = mentioned - tconsts
            if new and not (new - consts0):
                out.append(('C06|witness-not-fresh|constant', f'{desc}: step {len(tab.history)} {rname} consumed {A.std(A.from_lib(s))} and instantiated it '
                            f'with {sorted(map(A.std, new))}, already on the branch (constants before: {sorted(map(A.std, consts0))})'))
        if (kind == 'M' and ticked) or rname == 'Serial':
            w = node.get('world') if node is not None else None
            reached = {}
            for n in added:
                w1, w2 = n.get('world1'), n.get('world2')
                if w1 is None or w2 is None:
                    continue
                if rname == 'Serial' or w1 == w:
                    reached.setdefault(w2, []).append(w1)
                    if len(set(reached[w2])) == 2:
                        out.append(('C06|witness-shared|world', f'{desc}: step {len(tab.history)} {rname} gave worlds {sorted(set(reached[w2]))} the same '
                                    f'witness world {w2}: for the second of them it was no longer new'))
                if (rname == 'Serial' or w1 == w) and w2 in worlds0:
                    out.append(('C06|witness-not-fresh|world', f'{desc}: step {len(tab.history)} {rname} added access {w1}->{w2} as a witness, '
                                f'but world {w2} already occurs on the branch (worlds before: {sorted(worlds0)})'))
    return out


def check_proof(case):
    logic, prem, con = prover.case_args(case)
    desc = prover.case_str(case)
    witness = []
    with Monitor() as mon:
        try:
            tab = prover.make_tableau(logic, prem, con, group=case.get('group', True), rank=case.get('rank', True),
                                      order=case.get('order', 0), max_steps=case.get('max_steps', 150))
            while not tab.finished:
                before = {}
                for b in tab.open:
                    c, w = walk(b)
                    before[id(b)] = (len(b), c, w)
                entry = tab.step()
                if entry is None:
                    break
                witness += witness_violations(entry, before, desc)
        except Exception as e:
            # build errors belong to C09; here only freshness is judged
            pass
    out = []
    seen = set()
    for fp, d in mon.violations:
        if fp not in seen:
            seen.add(fp)
            out.append((fp, f'{desc}: {d}'))
    for fp, d in witness:
        if fp not in seen:
            seen.add(fp)
            out.append((fp, d))
    return out, mon.calls


def run_proofs(shard, acc):
    names = [n for n in sorted(R.LOGICS) if R.is_quantified(n) or R.is_modal(n)]
    # constants deliberately drawn in non-alphabetical positions
    prof = gen.Profile(consts=(A.const(2), A.const(0), A.const(1), A.const(1, 1)), w_pred=6, w_atom=2, w_ident=1,
                       w_quant=5, w_modal=4, max_depth=3)

    fom_prof = gen.Profile(consts=(A.const(0), A.const(1)), w_atom=1, w_pred=8, w_ident=0, w_neg=4, w_assert=0, w_bin=3, w_modal=9, w_quant=9,
                           max_depth=3, preds=((0, 0, 1), (1, 0, 1)))
    serial_prof = gen.Profile(w_atom=5, w_pred=0, w_ident=0, w_neg=4, w_assert=0, w_bin=3, w_modal=12, w_quant=0, max_depth=4, natoms=2).for_logic('D')

    @seed(shard['seed'] * 1000 + shard['shard'])
    @settings(max_examples=shard['examples'], database=None, deadline=None, report_multiple_bugs=False,
              phases=[Phase.generate], suppress_health_check=list(HealthCheck))
    @given(st.data())
    def body(data):
        logic = names[data.draw(st.integers(0, len(names) - 1))]
        p = prof.for_logic(logic)
        k = data.draw(st.integers(0, 7))
        if k == 0:
            # D is the only logic with the Serial rule: give it its own share, with nested modal operators
            logic, p = 'D', serial_prof
        elif k <= 3:
            # quantifiers under modal operators, constants elsewhere on the branch: a witness must be new to the branch,
            # not merely to the world it is introduced at
            logic = data.draw(gen.logic_name(lambda n: R.is_modal(n) and R.is_quantified(n)))       # base logic first: one-off
            p = fom_prof.for_logic(logic)                                                            # families get their share
        prem, con = data.draw(gen.argument(p, 3))
        case = prover.mk_case(logic, prem, con, order=data.draw(st.integers(0, 3)), max_steps=150)
        res, calls = check_proof(case)
        acc.case((logic, case['premises'], case['conclusion']), nontrivial=calls > 0,
                 classes=('proof', 'proof-with-witness' if calls else 'proof-without-witness'),
                 sample=prover.case_str(case) + f' ({calls} fresh-item requests)')
        for fp, d in res:
            acc.finding(fp, dict(kind='proof', **case), d)
    body()


# ------------------------------------------------------------------ witness rules, one shape at a time

def witness_shape_cases(name):
    """Every quantifier shape (quantifier x negated x designation) on a hand-made branch where a constant already occurs,
    in modal logics at ANOTHER world than the shape (a witness must be new to the branch, not to its world)."""
    ds = (None,) if R.is_classical(name) else (True, False)
    x = A.var(0)
    for q in A.QUANTS:
        for negated in (False, True):
            core = ('Q', q, x, ('P', G2[:2] + (1,), (x,)))
            s = A.neg(core) if negated else core
            for d in ds:
                for far in ((False, True) if R.is_modal(name) else (False,)):
                    yield dict(logic=name, sentence=A.to_json(s), designated=d, far=far)


def check_witness_shape(case):
    from pytableaux.proof import Tableau, anode, sdwnode
    from ..lib import get_logic
    name = case['logic']
    s = A.from_json(case['sentence'])
    d = case['designated']
    modal = R.is_modal(name)
    prover.reseed(0)
    get_logic(name)
    tab = Tableau(get_logic(name))
    b = tab.branch()
    w_shape = (1 if case['far'] else 0) if modal else None
    carrier_d = None if R.is_classical(name) else True
    b.append(sdwnode(A.to_lib(('P', F1, (CONST['a'],))), carrier_d, 0 if modal else None))
    if modal and case['far']:
        b.append(anode(0, 1))
    b.append(sdwnode(A.to_lib(s), d, w_shape))
    desc = f'{name}: hand-made branch [Fa at w0{", 0R1" if case["far"] else ""}; {A.std(s)}{"" if d is None else (" +" if d else " -")} at w{w_shape}]'
    out = []
    steps = 0
    try:
        while steps < 40 and not tab.finished:
            before = {}
            for br in tab.open:
                c, w = walk(br)
                before[id(br)] = (len(br), c, w)
            entry = tab.step()
            if entry is None:
                break
            steps += 1
            out += witness_violations(entry, before, desc)
    except Exception:
        pass
    seen = set()
    return [(fp, dd) for fp, dd in out if not (fp in seen or seen.add(fp))], steps


def run_witness_shapes(shard, acc):
    for name in shard['logics']:
        for case in witness_shape_cases(name):
            res, steps = check_witness_shape(case)
            acc.case(('witness-shape', name, case['sentence'], case['designated'], case['far']), nontrivial=steps > 0,
                     classes=('witness-shape',), sample=None)
            for fp, d in res:
                acc.finding(fp, dict(kind='witness-shape', **case), d)


# ------------------------------------------------------------------ campaign

def shards(tier, seed_):
    out = []
    maxlen = 4 if tier == 'quick' else 5
    n = 8 if tier == 'quick' else 16
    out += [dict(kind='exh', maxlen=maxlen, k=k, n=n) for k in range(n)]
    ns = 4 if tier == 'quick' else 16
    out += [dict(kind='sm', seed=seed_, shard=i, examples=150 if tier == 'quick' else 600) for i in range(ns)]
    qnames = [n for n in sorted(R.LOGICS) if R.is_quantified(n)]
    out += [dict(kind='wshape', logics=qnames[i::8]) for i in range(8)]
    np_ = 16 if tier == 'quick' else 32
    out += [dict(kind='proofs', seed=seed_, shard=i, examples=300 if tier == 'quick' else 800) for i in range(np_)]
    return out


def run_shard(shard, acc):
    {'exh': run_exhaustive, 'sm': run_machine, 'proofs': run_proofs, 'wshape': run_witness_shapes}[shard['kind']](shard, acc)


def replay(case):
    if case['kind'] == 'history':
        return run_history(case['ops'])
    if case['kind'] == 'witness-shape':
        return check_witness_shape(case)[0]
    return check_proof(case)[0]


def shrink_candidates(case):
    if case.get('kind') == 'witness-shape':
        return
    if case['kind'] == 'history':
        ops = case['ops']
        for i in range(len(ops)):
            yield dict(kind='history', ops=ops[:i] + ops[i + 1:])
    else:
        for c in prover.argument_shrinks(case):
            yield c
