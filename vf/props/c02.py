"""C02 -- an 'invalid' verdict comes with a genuine countermodel (and 'completed' means saturated)."""
from __future__ import annotations

from hypothesis import HealthCheck, Phase, given, seed, settings
from hypothesis import strategies as st

from .. import ast as A
from .. import gen
from .. import prover
from .. import refsem as R
from ..modelread import node_satisfied, read_model, shape_of

ID = 'C02'
LEVEL = 'exploration'
RULE = ('Hypothesis arguments from three profiles (generic first-order modal; modal-heavy: 60% modal operators, several '
        'necessity-type premises; quantifier-heavy; identity-heavy with binary and ternary predicates in the classical family) x logic (base logic first, then frame variant) x {group optim} x '
        '{rank optim} x tie-break order seed, built with is_build_models. For every open branch without a limit flag of '
        'a completed invalid tableau: the raw data of the library-built model is read into the reference evaluator and '
        '(1) every node of the branch must be satisfied at its world, access nodes in R, R obeying the frame condition; '
        '(2) premises designated and conclusion not at w0; (3) the library\'s value_of / is_countermodel_to must agree. '
        'Non-trivial = such a branch carrying at least one compound node; distinct by (logic, argument, options, order).')
ASSUMPTIONS = [
    'vf/refsem.py semantics; unmentioned atoms / tuples take the logic\'s documented unassigned value',
    'FDE family: a disagreement between the library evaluator and the lattice reference that comes from an N/B pair '
    'is the C07 known finding and is counted as excluded here',
    'limited outcomes are inconclusive',
]
MAX_STEPS = 250

PROFILES = {
    'generic': gen.Profile(w_atom=5, w_pred=3, w_ident=1, w_neg=4, w_assert=1, w_bin=7, w_modal=4, w_quant=3, max_depth=3),
    'modal-heavy': gen.Profile(w_atom=6, w_pred=1, w_ident=0, w_neg=4, w_assert=0, w_bin=4, w_modal=14, w_quant=0, max_depth=3,
                               natoms=2, bin_ops=('Conjunction', 'Disjunction', 'MaterialConditional', 'Conditional')),
    'modal-deep': gen.Profile(w_atom=4, w_pred=0, w_neg=3, w_assert=0, w_bin=3, w_modal=14, w_quant=0, max_depth=5, natoms=2,
                              bin_ops=('Conjunction', 'Disjunction')),
    'identity-heavy': gen.Profile(w_atom=1, w_pred=8, w_ident=7, w_neg=4, w_assert=0, w_bin=3, w_modal=2, w_quant=1, max_depth=2,
                                  preds=((1, 0, 2), (0, 0, 1), (2, 0, 3)), consts=(A.const(0), A.const(1), A.const(2))),
    # quantifiers under modal operators and the other way round (first-order modal logics only)
    'first-order-modal': gen.Profile(w_atom=1, w_pred=8, w_ident=0, w_neg=3, w_assert=0, w_bin=3, w_modal=9, w_quant=9, max_depth=3,
                                     preds=((0, 0, 1), (1, 0, 2)), consts=(A.const(0), A.const(1))),
    'quant-heavy': gen.Profile(w_atom=2, w_pred=7, w_ident=1, w_neg=3, w_assert=0, w_bin=5, w_modal=2, w_quant=8, max_depth=3,
                               consts=(A.const(3), A.const(0, 1))),
}


def nb_pair(vals):
    return 'N' in vals and 'B' in vals


def lib_disagreement(name, model, m, s, w):
    """Descend to the innermost (sub-sentence, world) on which the library evaluator and the reference
    disagree although they agree on all its immediate parts.  Returns None or (x, world, lib, ref, excluded_known)."""
    modal = R.is_modal(name)

    def lib(x, v):
        kw = dict(world=v) if modal else {}
        return str(model.value_of(A.to_lib(x), **kw))

    def parts(x, v):
        "immediate parts as (sentence, world)"
        if m.is_opaque(x) or x[0] in 'AP':
            return []
        if x[0] == 'Q':
            return [(A.instantiate(x, c), v) for c in m.consts]
        if x[1] in A.MODAL_OPS:
            return [(x[2][0], u2) for (u1, u2) in sorted(m.R) if u1 == v]
        return [(c, v) for c in x[2]]

    def find(x, v, depth=0):
        if m.empty_domain and A.is_quantified(x):
            return None
        try:
            lv = lib(x, v)
        except Exception as e:
            return (x, v, f'raises {type(e).__name__}: {e}', '-', False)
        try:
            rv = m.value(x, v)
        except KeyError:
            return None
        if lv == rv:
            return None
        ps = parts(x, v)
        for px, pv in ps:
            r = find(px, pv, depth + 1)
            if r is not None:
                return r
        excluded = False
        if R.base_of(name) == 'FDE' and ps:
            vals = set()
            for px, pv in ps:
                pvv = m.value(px, pv)
                vals.add(pvv)
                if x[0] == 'O' and x[1] in A.TF_OPS:
                    vals.add(m.t.neg[pvv])      # the defined operators negate their operands
            excluded = nb_pair(vals)
        return (x, v, lv, rv, excluded)

    return find(s, w if w is not None else 0)


def check_case(case):
    logic, prem, con = prover.case_args(case)
    fam = R.base_of(logic) + '*'
    info = dict(branches=0, nontrivial=False, excluded=0)
    try:
        tab = prover.build(logic, prem, con, group=case['group'], rank=case['rank'], order=case['order'],
                           max_steps=case.get('max_steps', MAX_STEPS), models=True)
    except Exception as e:
        info['raised'] = type(e).__name__
        # model building errors are ours to judge; search errors belong to C09
        import traceback
        tb = traceback.extract_tb(e.__traceback__)
        inmodels = any('/models/' in f.filename or f.name in ('read_branch', '_gen_models', 'finish') for f in tb)
        if inmodels and any('/models/' in f.filename or '/logics/' in f.filename for f in tb[-3:]):
            return [(f'C02|model-raises|{fam}|{type(e).__name__}',
                     f'{prover.case_str(case)}: building the model of an open branch raised {e!r}')], info
        return [], info
    info['outcome'] = prover.outcome(tab)
    info['steps'] = len(tab.history)
    if info['outcome'] != 'invalid':
        return [], info
    out = []
    frame = R.frame_of(logic)
    for bi, b in enumerate(tab.open):
        if prover.has_quit_flag(b):
            continue
        info['branches'] += 1
        model = b.model
        if model is None:
            out.append((f'C02|no-model|{fam}', f'{prover.case_str(case)}: open limit-free branch {bi} has no model'))
            continue
        m = read_model(logic, model)
        nodes = [prover.node_desc(n) for n in b]
        if any(n['sentence'] is not None and n['sentence'][0] in 'OQ' for n in nodes):
            info['nontrivial'] = True
        unsat = []
        for n in nodes:
            if n['flag'] is not None:
                continue
            try:
                ok = node_satisfied(m, n)
            except (KeyError, ValueError) as e:
                out.append((f'C02|model-incomplete|{fam}', f'{prover.case_str(case)}: reference evaluation of a branch node failed: {e!r}'))
                ok = True
            if not ok:
                unsat.append(n)
        if unsat:
            access = [n for n in unsat if n['world1'] is not None]
            sent = sorted((n for n in unsat if n['sentence'] is not None), key=lambda n: A.size(n['sentence']))
            if access:
                out.append((f'C02|access-missing|{fam}', f'{prover.case_str(case)}: access node w{access[0]["world1"]}Rw{access[0]["world2"]} '
                            f'of open branch {bi} is not in the model\'s R {sorted(m.R)}'))
            if sent:
                n = sent[0]
                out.append((f'C02|unsatisfied-node|{fam}|{shape_of(n)}',
                            f'{prover.case_str(case)}: open limit-free branch {bi}: node {A.show(n["sentence"])}'
                            f'{"" if n["designated"] is None else (" +" if n["designated"] else " -")} at w{n["world"]} is not '
                            f'satisfied by the branch\'s own model ({m.describe()}); {len(sent)} unsatisfied node(s)'))
        if R.is_classical(logic) and not m.empty_domain and not m.classical_ok():
            out.append((f'C02|non-classical-model|{fam}', f'{prover.case_str(case)}: the model of open branch {bi} is not a classical structure '
                        f'(identity not an equivalence respected by every extension, or existence not universal): {m.describe()}'))
        if frame and not R.frame_ok(frame, m.worlds, m.R):
            out.append((f'C02|frame|{frame}*', f'{prover.case_str(case)}: model R {sorted(m.R)} over worlds {m.worlds} violates the {frame} frame condition'))
        try:
            cm = m.is_countermodel(prem, con, 0)
        except (KeyError, ValueError):
            cm = None
        if cm is False and not unsat:
            out.append((f'C02|not-countermodel|{fam}', f'{prover.case_str(case)}: every node satisfied but the model is not a countermodel'))
        # (3) the library's own evaluator
        for n in nodes:
            if n['sentence'] is None:
                continue
            dis = lib_disagreement(logic, model, m, n['sentence'], n['world'])
            if dis is not None:
                x, xw, lv, rv, excluded = dis
                if excluded:
                    info['excluded'] += 1
                else:
                    head = x[1] if x[0] in 'OQ' else x[0]
                    out.append((f'C02|evaluator|{fam}|{head}', f'{prover.case_str(case)}: library value_of({A.show(x)}) at w{xw} = {lv}, '
                                f'reference = {rv} in model {m.describe()}'))
                break
        else:
            try:
                libcm = bool(model.is_countermodel_to(tab.argument))
            except Exception as e:
                libcm = f'raises {type(e).__name__}'
            if cm is True and libcm is not True:
                out.append((f'C02|lib-countermodel-test|{fam}', f'{prover.case_str(case)}: is_countermodel_to() = {libcm} but the reference says it is one'))
    return out, info


def shards(tier, seed_):
    n = 16 if tier == 'quick' else 64
    ex = 500 if tier == 'quick' else 3000
    return [dict(seed=seed_, shard=i, examples=ex) for i in range(n)]


def run_shard(shard, acc):
    @seed(shard['seed'] * 1000 + shard['shard'])
    @settings(max_examples=shard['examples'], database=None, deadline=None, report_multiple_bugs=False,
              phases=[Phase.generate], suppress_health_check=list(HealthCheck))
    @given(st.data())
    def body(data):
        pname = ('generic', 'modal-heavy', 'modal-heavy', 'quant-heavy', 'identity-heavy', 'modal-deep', 'first-order-modal')[data.draw(st.integers(0, 6))]
        if pname == 'first-order-modal':
            logic = data.draw(gen.logic_name(lambda n: R.is_modal(n) and R.is_quantified(n)))
        elif pname in ('modal-heavy', 'modal-deep'):
            logic = data.draw(gen.logic_name(R.is_modal))
        elif pname == 'identity-heavy':
            logic = data.draw(gen.logic_name(R.is_classical))
        elif pname == 'quant-heavy':
            logic = data.draw(gen.logic_name(R.is_quantified))
        else:
            logic = data.draw(gen.logic_name())
        prof = PROFILES[pname].for_logic(logic)
        if pname == 'generic':
            # fragments the logic does not interpret stay in with a small weight: they are its uninterpreted sentences
            prof = PROFILES[pname].for_logic(logic, modal=prof.w_modal or 1, quant=prof.w_quant or 1)
        nprem = data.draw(st.integers(1, 3)) if pname in ('modal-heavy', 'modal-deep') else data.draw(st.integers(0, 3))
        prem = [data.draw(gen.sentence(prof)) for _ in range(nprem)]
        con = data.draw(gen.sentence(prof))
        if pname == 'generic' or data.draw(st.integers(0, 3)) == 0:
            # rule-first: one drawn top-level form (what a rule is written for) as a premise or as the conclusion
            shapes = gen.shapes_for(prof)
            shaped = data.draw(gen.shaped_sentence(prof, shapes[data.draw(st.integers(0, len(shapes) - 1))]))
            k = data.draw(st.integers(0, len(prem)))
            if k == len(prem):
                con = shaped
            else:
                prem[k] = shaped
        case = prover.mk_case(logic, prem, con, group=data.draw(st.booleans()), rank=data.draw(st.booleans()),
                              order=data.draw(st.integers(0, 15)), max_steps=MAX_STEPS)
        res, info = check_case(case)
        if info.get('raised') and not res:
            acc.count('build-raised (see C09)')
            return
        oc = info.get('outcome', 'raised')
        if oc == 'limited':
            acc.inconclusive += 1
        acc.excluded += info['excluded']
        acc.case((logic, case['premises'], case['conclusion'], case['group'], case['rank'], case['order']),
                 nontrivial=info['nontrivial'], classes=(oc, 'profile:' + pname),
                 sample=prover.case_str(case) + f' => {oc}, {info["branches"]} limit-free open branch(es) checked')
        for fp, d in res:
            acc.finding(fp, case, d)
    body()


def replay(case):
    return check_case(case)[0]


def shrink_candidates(case):
    for c in prover.argument_shrinks(case):
        yield c
