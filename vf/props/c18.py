"""C18 -- ordered-set containers stay a set and a sequence at once (model-based state machines)."""
from __future__ import annotations

import os
import shutil

from itertools import product

from hypothesis import HealthCheck, Phase, seed, settings
from hypothesis import strategies as st
from hypothesis.stateful import RuleBasedStateMachine, invariant, rule, run_state_machine_as_test

ID = 'C18'
LEVEL = 'exploration'
EXHAUSTIVE = {'quick': True, 'thorough': True}
RULE = ('Hypothesis rule-based state machines for qset, linqset and the Predicates store over a universe of 6 values (predicates: '
        '4 symbols x 2 arities): every public mutator (append, add, insert, wedge, remove, discard, pop, del / assign by index and by '
        'slice with steps, extend, update, sort, reverse, clear, copy-and-continue, in-place and binary set algebra), up to 40 steps; '
        'plus exhaustive enumeration of all operation sequences of length <= 3 (thorough: 4) over a reduced operation alphabet. '
        'Reference model: a plain Python list without duplicates. After every operation: iteration, reversed, len, membership of '
        'every universe value, index, c[i] for every i agree with the model; an operation the model rejects must raise and a '
        'raising single-element operation must leave the container unchanged (after a raising bulk operation the container must '
        'still be internally consistent, and the model is resynchronised). Predicates: no two members share a symbol with different '
        'arity; get() finds each member by every reference. Non-trivial = history with a removal followed by an insertion, or a '
        'slice operation; distinct by (container, operation sequence).')
ASSUMPTIONS = ['list-without-duplicates semantics as documented in the class docstrings (sequence methods raise DuplicateValueError; '
               'slice assignment needs equal sizes)']

UNIVERSE = list(range(6))


class Reject(Exception):
    "The reference model rejects the operation (the real container must raise)."


def make_real(kind, values=()):
    if kind == 'qset':
        from pytableaux.tools.hybrids import qset
        return qset(values)
    if kind == 'linqset':
        from pytableaux.tools.linked import linqset
        return linqset(values)
    from pytableaux.lang import Predicates
    return Predicates(values)


PRED_SPECS = [(i, s, a) for i in (0, 1) for s in (0, 1) for a in (1, 2)]


def universe(kind):
    if kind == 'predicates':
        from pytableaux.lang import Predicate
        # user predicates and the two system predicates (which are also known to a store by their names)
        return [Predicate(*spec) for spec in PRED_SPECS] + [Predicate.Identity, Predicate.Existence]
    return UNIVERSE


class Sim:
    """Real container + list model; ``do(op)`` applies one operation to both and returns violations."""

    def __init__(self, kind):
        self.kind = kind
        self.U = universe(kind)
        self.real = make_real(kind)
        self.model = []
        self.removed = False
        self.nontrivial = False
        self.ops = []

    # --- model semantics -------------------------------------------------------------------------
    def sort_key(self, op):
        "op = ('sort', reverse[, key kind]): None (natural order), 1 = a key with ties (parity / arity), 2 = constant key."
        kind = op[2] if len(op) > 2 else 0
        if kind == 1:
            return (lambda x: x.arity) if self.kind == 'predicates' else (lambda x: x % 2)
        if kind == 2:
            return lambda x: 0
        return None

    def conflicts(self, v, leaving=()):
        "Predicates: a member with the same symbol but another arity (not among those leaving)."
        if self.kind != 'predicates':
            return False
        for m in self.model:
            if m in leaving:
                continue
            if (m.index, m.subscript) == (v.index, v.subscript) and m.arity != v.arity:
                return True
        return False

    def m_append(self, v, pos=None):
        if v in self.model or self.conflicts(v):
            raise Reject
        if pos is None:
            self.model.append(v)
        else:
            self.model.insert(pos, v)

    def model_apply(self, op):
        """Apply to the model; returns ('single'|'bulk', applied?) and raises Reject if the op must fail."""
        m = self.model
        name = op[0]
        val = lambda i: self.U[i % len(self.U)]
        if name == 'append':
            self.m_append(val(op[1])); return 'single'
        if name == 'add':
            v = val(op[1])
            if v not in m:
                if self.conflicts(v):
                    raise Reject
                m.append(v)
            return 'single'
        if name == 'insert':
            v = val(op[2])
            if v in m or self.conflicts(v):
                raise Reject
            m.insert(op[1], v); return 'single'
        if name == 'wedge':
            v, nb, rel = val(op[1]), val(op[2]), op[3]
            if nb not in m or v in m or self.conflicts(v):
                raise Reject
            i = m.index(nb)
            m.insert(i if rel == -1 else i + 1, v); return 'single'
        if name == 'remove':
            v = val(op[1])
            if v not in m:
                raise Reject
            m.remove(v); return 'single'
        if name == 'discard':
            v = val(op[1])
            if v in m:
                m.remove(v)
            return 'single'
        if name == 'pop':
            if not m:
                raise Reject
            m.pop(); return 'single'
        if name == 'delitem':
            i = op[1]
            if not -len(m) <= i < len(m):
                raise Reject
            del m[i]; return 'single'
        if name == 'delslice':
            del m[slice(*op[1])]; return 'bulk'
        if name == 'setitem':
            i, v = op[1], val(op[2])
            if not -len(m) <= i < len(m):
                raise Reject
            old = m[i]
            if (v in m and v != old) or self.conflicts(v, (old,)):
                raise Reject
            m[i] = v; return 'single'
        if name == 'setslice':
            sl = slice(*op[1])
            vals = [val(x) for x in op[2]]
            idx = range(*sl.indices(len(m)))
            if len(idx) != len(vals):
                raise Reject
            leaving = [m[i] for i in idx]
            if len(set(vals)) != len(vals):
                raise Reject
            for v in vals:
                if (v in m and v not in leaving) or self.conflicts(v, leaving):
                    raise Reject
            if self.kind == 'predicates':
                for a, b in product(vals, vals):
                    if (a.index, a.subscript) == (b.index, b.subscript) and a.arity != b.arity:
                        raise Reject
            for i, v in zip(idx, vals):
                m[i] = v
            return 'bulk'
        if name == 'extend':
            # may apply a prefix before raising
            for x in op[1]:
                self.m_append(val(x))
            return 'bulk'
        if name == 'update':
            for x in op[1]:
                v = val(x)
                if v not in m:
                    if self.conflicts(v):
                        raise Reject
                    m.append(v)
            return 'bulk'
        if name == 'sort':
            m.sort(key=self.sort_key(op), reverse=op[1]); return 'single'
        if name == 'reverse':
            m.reverse(); return 'single'
        if name == 'clear':
            m.clear(); return 'single'
        if name == 'copy':
            return 'single'
        if name == 'selfop':
            # the container itself as the argument of a bulk / set-algebra operation
            how = op[1]
            if how in ('isub', 'ixor'):
                m.clear()
            elif how == 'extend' and m:
                raise Reject
            return 'bulk'
        if name in ('ior', 'iand', 'isub', 'ixor'):
            other = [val(x) for x in op[1]]
            if name == 'ior':
                for v in other:
                    if v not in m:
                        if self.conflicts(v):
                            raise Reject
                        m.append(v)
            elif name == 'iand':
                m[:] = [v for v in m if v in other]
            elif name == 'isub':
                m[:] = [v for v in m if v not in other]
            else:
                keep = [v for v in m if v not in other]
                new = [v for v in dict.fromkeys(other) if v not in m]
                m[:] = keep
                for v in new:
                    if self.conflicts(v):
                        raise Reject
                    m.append(v)
            return 'bulk'
        raise ValueError(name)

    def real_apply(self, op):
        c = self.real
        name = op[0]
        val = lambda i: self.U[i % len(self.U)]
        if name == 'append': c.append(val(op[1]))
        elif name == 'add': c.add(val(op[1]))
        elif name == 'insert': c.insert(op[1], val(op[2]))
        elif name == 'wedge': c.wedge(val(op[1]), val(op[2]), op[3])
        elif name == 'remove': c.remove(val(op[1]))
        elif name == 'discard': c.discard(val(op[1]))
        elif name == 'pop': c.pop()
        elif name == 'delitem': del c[op[1]]
        elif name == 'delslice': del c[slice(*op[1])]
        elif name == 'setitem': c[op[1]] = val(op[2])
        elif name == 'setslice': c[slice(*op[1])] = [val(x) for x in op[2]]
        elif name == 'extend': c.extend([val(x) for x in op[1]])
        elif name == 'update': c.update([val(x) for x in op[1]])
        elif name == 'sort':
            k = self.sort_key(op)
            c.sort(reverse=op[1]) if k is None else c.sort(key=k, reverse=op[1])
        elif name == 'reverse': c.reverse()
        elif name == 'clear': c.clear()
        elif name == 'copy': self.real = c.copy()
        elif name == 'selfop':
            how = op[1]
            if how == 'ior': c |= c
            elif how == 'iand': c &= c
            elif how == 'isub': c -= c
            elif how == 'ixor': c ^= c
            elif how == 'update': c.update(c)
            else: c.extend(c)
            self.real = c
        elif name == 'ior': c |= [val(x) for x in op[1]]
        elif name == 'iand': c &= [val(x) for x in op[1]]
        elif name == 'isub': c -= [val(x) for x in op[1]]
        elif name == 'ixor': c ^= [val(x) for x in op[1]]
        else: raise ValueError(name)

    # --- comparison -----------------------------------------------------------------------------
    def compare(self, tag):
        c, m = self.real, self.model
        out = []
        try:
            got = list(c)
        except Exception as e:
            return [(f'C18|{self.kind}|iteration-raises', f'{tag}: iterating raised {e!r}')]
        if got != m:
            out.append((f'C18|{self.kind}|order', f'{tag}: iteration {show(got)} != model {show(m)}'))
        try:
            if list(reversed(c)) != got[::-1]:
                out.append((f'C18|{self.kind}|reversed', f'{tag}: reversed() {show(list(reversed(c)))} vs iteration {show(got)}'))
        except Exception as e:
            out.append((f'C18|{self.kind}|reversed-raises', f'{tag}: reversed() raised {e!r}'))
        if len(c) != len(got):
            out.append((f'C18|{self.kind}|len', f'{tag}: len {len(c)} but {len(got)} items iterate'))
        if len(set(got)) != len(got):
            out.append((f'C18|{self.kind}|duplicates', f'{tag}: duplicates in {show(got)}'))
        for v in self.U:
            if (v in c) != (v in got):
                out.append((f'C18|{self.kind}|membership', f'{tag}: ({show([v])[1:-1]} in c) = {v in c} but iteration gives {show(got)}'))
                break
        for i, v in enumerate(got):
            try:
                if c[i] != v or c[i - len(got)] != v:
                    out.append((f'C18|{self.kind}|getitem', f'{tag}: c[{i}] = {c[i]} but iteration has {v}'))
                    break
                if c.index(v) != i:
                    out.append((f'C18|{self.kind}|index', f'{tag}: index({v}) = {c.index(v)}, position {i}'))
                    break
            except Exception as e:
                out.append((f'C18|{self.kind}|lookup-raises', f'{tag}: lookup of member {v} at {i} raised {e!r} (content {show(got)})'))
                break
        if self.kind == 'predicates':
            syms = {}
            for p in got:
                if syms.setdefault((p.index, p.subscript), p.arity) != p.arity:
                    out.append((f'C18|predicates|arity-conflict', f'{tag}: two members share a symbol with different arities: {show(got)}'))
            for p in got:
                for ref in p.refs:
                    try:
                        if c.get(ref) != p:
                            out.append((f'C18|predicates|get', f'{tag}: get({ref!r}) = {c.get(ref)!r}, expected {p!r}'))
                            break
                    except Exception as e:
                        out.append((f'C18|predicates|get', f'{tag}: get({ref!r}) raised {e!r} for member {p!r}'))
                        break
            # membership by every published reference (spec, ident, coordinates, name) agrees with the sequence
            for p in self.U:
                for ref in p.refs:
                    if p not in got and ref == p.bicoords:
                        continue        # (index, subscript) is shared by the predicates of every arity on that symbol
                    try:
                        if (ref in c) != (p in got):
                            out.append((f'C18|predicates|membership-by-ref', f'{tag}: ({ref!r} in c) = {ref in c} but {p!r} is '
                                        f'{"a member" if p in got else "not a member"} (content {show(got)})'))
                            break
                    except Exception as e:
                        out.append((f'C18|predicates|membership-by-ref-raises', f'{tag}: ({ref!r} in c) raised {e!r}'))
                        break
            for p in self.U:
                if p not in got and not p.is_system:        # get() falls back to the system predicates by design
                    for ref in (p.spec, p.bicoords):
                        try:
                            r = c.get(ref)
                            if r not in got:
                                out.append((f'C18|predicates|stale-lookup', f'{tag}: get({ref!r}) returns non-member {r!r}'))
                        except KeyError:
                            pass
        return out

    def do(self, op):
        if op[0] in ('ior', 'iand', 'isub', 'ixor'):
            op = (op[0], tuple(_dedup_ok(self, op[1])))
        self.ops.append(op)
        tag = f'{self.kind} after {show_ops(self.ops)}'
        before = list(self.model)
        kind = None
        rejected = False
        try:
            kind = self.model_apply(op)
        except Reject:
            rejected = True
            bulk = op[0] in ('extend', 'update', 'setslice', 'delslice', 'ior', 'iand', 'isub', 'ixor', 'selfop')
            if not bulk:
                self.model = before
        raised = None
        try:
            self.real_apply(op)
        except Exception as e:
            raised = e
        out = []
        if op[0] in ('remove', 'discard', 'delitem', 'delslice', 'pop', 'clear', 'isub', 'iand'):
            self.removed = True
        elif self.removed and op[0] in ('append', 'add', 'insert', 'wedge', 'extend', 'update', 'ior'):
            self.nontrivial = True
        if op[0] in ('setslice', 'delslice'):
            self.nontrivial = True
        if rejected and raised is None:
            out.append((f'C18|{self.kind}|accepted|{op[0]}', f'{tag}: the operation must be rejected (duplicate / missing / conflict / size) but it succeeded; content {show(list(self.real))}'))
            self.model = list(self.real) if len(set(self.real)) == len(list(self.real)) else before
        elif not rejected and raised is not None:
            out.append((f'C18|{self.kind}|raised|{op[0]}|{type(raised).__name__}', f'{tag}: raised {raised!r} on a legal operation'))
            self.model = list(self.real)
        if rejected and raised is not None:
            bulk = op[0] in ('extend', 'update', 'setslice', 'delslice', 'ior', 'iand', 'isub', 'ixor', 'selfop')
            if bulk:
                # a prefix may have been applied: resynchronise, internal consistency is still checked below
                self.model = list(self.real)
            elif list(self.real) != before:
                out.append((f'C18|{self.kind}|raise-changed|{op[0]}', f'{tag}: the operation raised {type(raised).__name__} but changed the container from {show(before)} to {show(list(self.real))}'))
                self.model = list(self.real)
        out += self.compare(tag)
        return out


def _dedup_ok(sim, xs):
    "Operand for a binary set operation: drop values that would conflict inside the operand itself."
    out = []
    val = lambda i: sim.U[i % len(sim.U)]
    for x in xs:
        v = val(x)
        if sim.kind == 'predicates' and any((val(y).index, val(y).subscript) == (v.index, v.subscript) and val(y).arity != v.arity for y in out):
            continue
        out.append(x)
    return out


def show(vals):
    return '[' + ', '.join(str(getattr(v, 'spec', v)) for v in vals) + ']'


def show_ops(ops):
    return ' ; '.join(' '.join(map(str, op)) for op in ops[-12:])


def run_ops(kind, ops):
    sim = Sim(kind)
    for op in ops:
        res = sim.do(tuple(op) if not isinstance(op, tuple) else op)
        if res:
            return res, sim
    return [], sim


# ----------------------------------------------------------------------------- state machine

def make_machine(kind, acc):
    idx = st.integers(-7, 7)
    v = st.integers(0, 5) if kind != 'predicates' else st.integers(0, 9)
    vals = st.lists(v, max_size=4)
    sl = st.tuples(st.one_of(st.none(), st.integers(-6, 6)), st.one_of(st.none(), st.integers(-6, 6)),
                   st.sampled_from([None, None, 1, 2, -1, -2, 3]))

    class M(RuleBasedStateMachine):
        def __init__(self):
            super().__init__()
            self.sim = Sim(kind)
            self.dead = False

        def go(self, op):
            if self.dead:
                return
            res = self.sim.do(op)
            for fp, d in res:
                acc.finding(fp, dict(kind=kind, ops=[list(o) for o in self.sim.ops]), d)
            if res:
                self.dead = True

        @rule(x=v)
        def append(self, x): self.go(('append', x))
        @rule(x=v)
        def add(self, x): self.go(('add', x))
        @rule(i=idx, x=v)
        def insert(self, i, x): self.go(('insert', i, x))
        @rule(x=v)
        def remove(self, x): self.go(('remove', x))
        @rule(x=v)
        def discard(self, x): self.go(('discard', x))
        @rule()
        def pop(self): self.go(('pop',))
        @rule(i=idx)
        def delitem(self, i): self.go(('delitem', i))
        @rule(s=sl)
        def delslice(self, s): self.go(('delslice', s))
        @rule(i=idx, x=v)
        def setitem(self, i, x): self.go(('setitem', i, x))
        @rule(s=sl, xs=vals, fit=st.booleans(), data=st.data())
        def setslice(self, s, xs, fit, data):
            if fit:
                n = len(range(*slice(*s).indices(len(self.sim.model))))
                xs = [data.draw(v) for _ in range(n)]
            self.go(('setslice', s, tuple(xs)))
        @rule(xs=vals)
        def extend(self, xs): self.go(('extend', tuple(xs)))
        @rule(xs=vals)
        def update(self, xs): self.go(('update', tuple(xs)))
        @rule()
        def reverse(self): self.go(('reverse',))
        @rule()
        def clear(self): self.go(('clear',))
        @rule()
        def copy(self): self.go(('copy',))
        @rule(xs=vals)
        def ior(self, xs): self.go(('ior', tuple(xs)))
        @rule(xs=vals)
        def iand(self, xs): self.go(('iand', tuple(xs)))
        @rule(xs=vals)
        def isub(self, xs): self.go(('isub', tuple(xs)))
        @rule(xs=vals)
        def ixor(self, xs): self.go(('ixor', tuple(xs)))
        @rule(how=st.sampled_from(['ior', 'iand', 'isub', 'ixor', 'update', 'extend']))
        def selfop(self, how): self.go(('selfop', how))

        if kind == 'linqset':
            @rule(x=v, nb=v, rel=st.sampled_from([-1, 1]))
            def wedge(self, x, nb, rel): self.go(('wedge', x, nb, rel))
        else:
            @rule(r=st.booleans(), k=st.integers(0, 2))
            def sort(self, r, k): self.go(('sort', r, k))

        def teardown(self):
            acc.case((kind, self.sim.ops), nontrivial=self.sim.nontrivial, classes=(kind, 'state-machine'),
                     sample=f'{kind}: {show_ops(self.sim.ops)} => {show(self.sim.model)}')
    return M


def run_machine(shard, acc):
    M = make_machine(shard['container'], acc)
    run_state_machine_as_test(
        seed(shard['seed'] * 1000 + shard['shard'])(M),
        settings=settings(max_examples=shard['examples'], stateful_step_count=40, database=None, deadline=None,
                          report_multiple_bugs=False, phases=[Phase.generate], suppress_health_check=list(HealthCheck)))


# ----------------------------------------------------------------------------- exhaustive short histories

def small_alphabet(kind):
    ops = []
    for x in (0, 1, 2):
        ops += [('append', x), ('add', x), ('remove', x), ('discard', x), ('insert', 0, x), ('setitem', 0, x), ('setitem', -1, x)]
    ops += [('delitem', 0), ('delitem', -1), ('pop',), ('reverse',), ('clear',), ('copy',),
            ('delslice', (None, None, 2)), ('delslice', (1, None, None)),
            ('setslice', (0, 2, None), (1, 0)), ('setslice', (0, 2, None), (2, 2)), ('setslice', (None, None, -1), (0, 1)),
            ('extend', (0, 1)), ('update', (1, 2)), ('isub', (0,)), ('iand', (0, 1)), ('ior', (2, 0)), ('ixor', (0, 2)),
            ('selfop', 'isub'), ('selfop', 'ixor'), ('selfop', 'iand'), ('selfop', 'extend')]
    if kind == 'linqset':
        ops += [('wedge', 2, 0, 1), ('wedge', 1, 0, -1)]
    else:
        ops += [('sort', False), ('sort', True), ('sort', True, 1), ('sort', False, 1)]
    return ops


def run_exhaustive(shard, acc):
    kind = shard['container']
    alpha = small_alphabet(kind)
    k, n = shard['k'], shard['n']
    idx = 0
    for length in range(1, shard['depth'] + 1):
        for combo in product(alpha, repeat=length):
            idx += 1
            if idx % n != k:
                continue
            res, sim = run_ops(kind, combo)
            acc.case((kind, combo), nontrivial=sim.nontrivial, classes=(kind, 'exhaustive'))
            for fp, d in res:
                acc.finding(fp, dict(kind=kind, ops=[list(o) for o in sim.ops]), d)


def shards(tier, seed_):
    out = []
    depth = 3 if tier == 'quick' else 4
    nsh = 4 if tier == 'quick' else 16
    for c in ('qset', 'linqset', 'predicates'):
        out += [dict(kind='exh', container=c, depth=depth, k=k, n=nsh) for k in range(nsh)]
        out += [dict(kind='sm', container=c, seed=seed_, shard=i, examples=200 if tier == 'quick' else 1500) for i in range(4 if tier == 'quick' else 12)]
    for c in ('qset', 'linqset', 'predicates'):
        out.append(dict(kind='atheris', container=c, runs=60000 if tier == 'quick' else 2000000, seed=seed_))
    return out


def run_atheris(shard, acc):
    "Coverage-guided byte-level campaign (vf/fuzz/container_fuzz.py): same operations, same model-based oracle."
    import json
    import re
    import subprocess
    import sys
    root = os.path.dirname(os.path.dirname(os.path.dirname(os.path.abspath(__file__))))
    script = os.path.join(root, 'vf', 'fuzz', 'container_fuzz.py')
    outdir = os.path.join(os.environ.get('VERIF_OUT', root), 'replays', 'C18', f'fuzz-{shard["container"]}')
    corpus = os.path.join(outdir, 'corpus')
    shutil.rmtree(outdir, ignore_errors=True)
    os.makedirs(corpus, exist_ok=True)
    env = dict(os.environ, FUZZ_CONTAINER=shard['container'], FUZZ_OUT=outdir)
    args = [sys.executable, script, f'-runs={shard["runs"]}', f'-seed={shard["seed"] + 1}', '-max_len=96', '-timeout=20',
            f'-artifact_prefix={outdir}/', corpus]
    r = subprocess.run(args, capture_output=True, text=True, env=env)
    tail = (r.stdout + r.stderr)[-2000:]
    if 'atheris unavailable' in tail:
        acc.count('atheris-unavailable')
        return
    m = re.findall(r'stat::number_of_executed_units:\s*(\d+)', tail) or re.findall(r'#(\d+)\s+DONE', tail) or re.findall(r'Done (\d+) runs', tail)
    execs = int(m[-1]) if m else 0
    acc.evaluations += execs
    acc.classes[f'atheris-{shard["container"]}'] += execs
    acc.extra['atheris_execs'] = acc.extra.get('atheris_execs', 0) + execs
    fpath = os.path.join(outdir, 'violation.json')
    if os.path.exists(fpath):
        v = json.load(open(fpath))
        acc.finding(v['fingerprint'], dict(kind=shard['container'], ops=v['ops']), v['detail'])
    elif r.returncode != 0 and 'Done' not in tail and 'DONE' not in tail:
        raise RuntimeError('atheris target failed: ' + tail[-600:])


def run_shard(shard, acc):
    if shard['kind'] == 'exh':
        run_exhaustive(shard, acc)
    elif shard['kind'] == 'atheris':
        run_atheris(shard, acc)
    else:
        run_machine(shard, acc)


def _norm(op):
    return tuple(tuple(x) if isinstance(x, list) else x for x in op)


def replay(case):
    return run_ops(case['kind'], [_norm(o) for o in case['ops']])[0]


def shrink_candidates(case):
    ops = case['ops']
    for i in range(len(ops)):
        yield dict(kind=case['kind'], ops=ops[:i] + ops[i + 1:])
