"""Shared campaign machinery: accumulators, sharding over processes, finding
fingerprints, known-findings handling, replay files, evidence files.

Contract with a property module ``vf.props.cNN``:

    ID          = 'C07'
    LEVEL       = 'exploration'
    RULE        = 'how cases are generated and what counts as non-trivial'
    ASSUMPTIONS = [...]
    def shards(tier, seed) -> list[dict]          picklable shard descriptors
    def run_shard(shard, acc) -> None             executes cases, reports into acc
    def replay(case) -> list[(fingerprint, detail)]   pure re-execution of one case (plain JSON data)
    def shrink_candidates(case) -> iterable[case]     optional, smaller variants of a case
"""
from __future__ import annotations

import hashlib
import importlib
import json
import multiprocessing as mp
import os
import sys
import time
import traceback
from collections import Counter

ROOT = os.path.dirname(os.path.dirname(os.path.abspath(__file__)))
REPO = os.environ.get('VERIF_REPO', '/repo')
OUT = os.environ.get('VERIF_OUT', ROOT)   # evidence/ and replays/ go here (self-tests redirect it)
MAX_SAMPLES = 12
SHRINK_BUDGET = int(os.environ.get('VERIF_SHRINK_BUDGET', '150'))


def digest(obj) -> str:
    if not isinstance(obj, str):
        obj = json.dumps(obj, sort_keys=True, default=str)
    return hashlib.blake2b(obj.encode(), digest_size=8).hexdigest()


def jsize(case) -> int:
    return len(json.dumps(case, default=str))


class Acc:
    "Per-shard accumulator; plain data so that it crosses process boundaries."

    def __init__(self):
        self.evaluations = 0
        self.nontrivial = set()
        self.classes = Counter()
        self.samples = []
        self.findings = {}      # fingerprint -> [size, case, detail, count]
        self.inconclusive = 0
        self.excluded = 0
        self.extra = {}         # free-form counters merged by addition / set union
        self._sample_slots = MAX_SAMPLES

    def case(self, key=None, *, nontrivial=False, classes=(), sample=None):
        self.evaluations += 1
        if nontrivial and key is not None:
            self.nontrivial.add(digest(key))
        for c in classes:
            self.classes[c] += 1
        if sample is not None and (nontrivial or not self.samples) and len(self.samples) < self._sample_slots:
            self.samples.append(sample)

    def count(self, name, n=1):
        self.classes[name] += n

    def finding(self, fingerprint, case, detail=''):
        sz = jsize(case)
        cur = self.findings.get(fingerprint)
        if cur is None:
            self.findings[fingerprint] = [sz, case, detail, 1]
        else:
            cur[3] += 1
            if sz < cur[0]:
                cur[0], cur[1], cur[2] = sz, case, detail

    def dump(self):
        return dict(
            evaluations=self.evaluations, nontrivial=sorted(self.nontrivial),
            classes=dict(self.classes), samples=self.samples, findings=self.findings,
            inconclusive=self.inconclusive, excluded=self.excluded, extra=self.extra)

    def merge(self, d):
        self.evaluations += d['evaluations']
        self.nontrivial.update(d['nontrivial'])
        self.classes.update(d['classes'])
        for s in d['samples']:
            if len(self.samples) < MAX_SAMPLES:
                self.samples.append(s)
        for fp, (sz, case, detail, n) in d['findings'].items():
            cur = self.findings.get(fp)
            if cur is None:
                self.findings[fp] = [sz, case, detail, n]
            else:
                cur[3] += n
                if sz < cur[0]:
                    cur[0], cur[1], cur[2] = sz, case, detail
        self.inconclusive += d['inconclusive']
        self.excluded += d['excluded']
        for k, v in d['extra'].items():
            if isinstance(v, (int, float)):
                self.extra[k] = self.extra.get(k, 0) + v
            elif isinstance(v, list):
                self.extra[k] = sorted(set(self.extra.get(k, [])) | set(map(_hashable, v)))[:50]
            else:
                self.extra[k] = v


def _hashable(x):
    return tuple(map(_hashable, x)) if isinstance(x, list) else x


def _pin_hypothesis():
    """Hypothesis mixes constants harvested from every *local* module imported so far into what it generates
    (providers._get_local_constants).  Which pytableaux logic modules are imported at a given moment depends on which
    shards a pool worker happened to run before, so generation would not be a pure function of (code, VERIF_SEED).
    Pin the harvested pool to empty; the global constant pool is unaffected."""
    try:
        from hypothesis.internal.conjecture import providers as P
        empty = P._local_constants.__class__(**{k: type(getattr(P._local_constants, k))(key=getattr(getattr(P._local_constants, k), 'key', None))
                                                 for k in ('integers', 'floats', 'bytes', 'strings')})
        P._get_local_constants = lambda: empty
        return True
    except Exception:
        return False


PINNED = _pin_hypothesis()


def _library_frame(e):
    """(exception, 'file.py:function') for the innermost pytableaux frame reachable from e (sub-exceptions of a group and
    chained causes included), or None when the library is not on the traceback."""
    stack, seen = [e], set()
    while stack:
        x = stack.pop()
        if x is None or id(x) in seen:
            continue
        seen.add(id(x))
        frames = traceback.extract_tb(x.__traceback__)
        if any(f.filename.endswith('/vf/ast.py') or f.filename.endswith('/vf/gen.py') for f in frames):
            # raised while the harness was still building its input (AST -> library objects): a generator that produces
            # something the library rejects is a harness error, never a finding
            continue
        for f in reversed(frames):
            if '/pytableaux/' in f.filename:
                return x, f'{f.filename.rsplit("/", 1)[-1]}:{f.name}'
        stack += list(getattr(x, 'exceptions', ())) + [x.__cause__, x.__context__]
    return None


def run_shard_guarded(mod, shard, acc):
    """Every claimed property predicts a result for the inputs its check generates, so the library raising on a path the
    check does not guard individually breaks that prediction: it is reported as a finding of the property (replayable by
    re-running the shard), not as a harness error.  Exceptions without a library frame stay harness errors."""
    try:
        mod.run_shard(shard, acc)
    except Exception as e:
        hit = _library_frame(e)
        if hit is None:
            raise
        x, where = hit
        acc.finding(f'{mod.ID}|library-raises|{type(x).__name__}|{where}', {'__shard__': shard},
                    f'while running shard {shard!r} the library raised {type(x).__name__}: {str(x)[:300]} (at {where}) on an input '
                    f'for which the property predicts a result')


def replay_any(mod, case):
    if isinstance(case, dict) and '__shard__' in case:
        acc = Acc()
        run_shard_guarded(mod, case['__shard__'], acc)
        return [(fp, v[2]) for fp, v in acc.findings.items()]
    return mod.replay(case)


def _worker(args):
    modname, shard = args
    t0 = time.time()
    try:
        mod = importlib.import_module(modname)
        acc = Acc()
        if '__regress__' in shard:
            for name, case in shard['__regress__']:
                for fp, detail in replay_any(mod, case):
                    acc.finding(fp, case, detail)
        else:
            run_shard_guarded(mod, shard, acc)
        out = acc.dump()
        out['error'] = None
    except BaseException:
        out = Acc().dump()
        out['error'] = f'shard {shard!r}\n' + traceback.format_exc()
    out['shard_wall'] = time.time() - t0
    return out


def load_known():
    path = os.path.join(ROOT, 'known_findings.json')
    try:
        with open(path) as f:
            data = json.load(f)
    except FileNotFoundError:
        return []
    return data['findings']


def known_for(pid):
    "fingerprint -> entry, for entries of this property (open ones suppress, fixed ones do not)."
    return {e['fingerprint']: e for e in load_known() if e['property'] == pid}


def shrink(mod, fingerprint, case):
    "Greedy structural delta debugging through the module's own candidates, bounded."
    gen = getattr(mod, 'shrink_candidates', None)
    if gen is None or (isinstance(case, dict) and '__shard__' in case):
        return case
    budget = SHRINK_BUDGET
    improved = True
    while improved and budget > 0:
        improved = False
        for cand in gen(case):
            if budget <= 0:
                break
            if jsize(cand) >= jsize(case):
                continue
            budget -= 1
            try:
                fps = {fp for fp, _ in mod.replay(cand)}
            except Exception:
                continue
            if fingerprint in fps:
                case = cand
                improved = True
                break
    return case


def write_replay(pid, fingerprint, case, detail):
    d = os.path.join(OUT, 'replays', pid)
    os.makedirs(d, exist_ok=True)
    path = os.path.join(d, digest(fingerprint) + '.json')
    with open(path, 'w') as f:
        json.dump(dict(property=pid, fingerprint=fingerprint, detail=detail, case=case), f, indent=1, default=str)
    return os.path.relpath(path, ROOT) if OUT == ROOT else path


def regress_cases(pid):
    d = os.path.join(ROOT, 'regress', pid)
    if not os.path.isdir(d):
        return []
    out = []
    for name in sorted(os.listdir(d)):
        if name.endswith('.json'):
            with open(os.path.join(d, name)) as f:
                out.append((name, json.load(f)))
    return out


def run(pid, tier, seed):
    t0 = time.time()
    modname = f'vf.props.{pid.lower()}'
    mod = importlib.import_module(modname)
    total = Acc()
    errors = []
    import shutil
    shutil.rmtree(os.path.join(OUT, 'replays', pid), ignore_errors=True)

    # replay tier: every saved minimal input of earlier findings (run in a worker: the parent never
    # imports the library, so that workers can still choose import-time settings)
    reg = regress_cases(pid)
    nreg = len(reg)
    shards = mod.shards(tier, seed)
    nproc = int(os.environ.get('VERIF_PROCS', '16'))
    nproc = max(1, min(nproc, len(shards)))
    walls = []
    jobs = [(modname, s) for s in shards]
    if reg:
        jobs.insert(0, (modname, dict(__regress__=[(name, doc['case']) for name, doc in reg])))
    nproc = max(1, min(int(os.environ.get('VERIF_PROCS', '16')), len(jobs)))
    if nproc == 1 and not getattr(mod, 'MAXTASKS', None):
        results = map(_worker, jobs)
    else:
        nproc = max(nproc, 2) if getattr(mod, 'MAXTASKS', None) else nproc
        ctx = mp.get_context('fork')
        pool = ctx.Pool(nproc, maxtasksperchild=getattr(mod, 'MAXTASKS', None))
        results = pool.imap_unordered(_worker, jobs, chunksize=1)
    # watchdog: no single wait for the next finished shard may exceed the stall limit (default 30 min quick, 3 h
    # thorough); a stalled campaign ends as a harness error (exit 2) instead of hanging -- never as a violation
    stall = float(os.environ.get('VERIF_STALL_S', '1800' if tier == 'quick' else '10800'))
    it = iter(results)
    while True:
        try:
            r = next(it) if isinstance(results, map) else it.next(timeout=stall)
        except StopIteration:
            break
        except mp.TimeoutError:
            errors.append(f'no shard finished within {stall:.0f} s: campaign stalled (inconclusive), workers terminated')
            pool.terminate()
            break
        if r['error']:
            errors.append(r['error'])
        walls.append(r['shard_wall'])
        total.merge(r)
    if not isinstance(results, map):
        pool.close() if not errors or 'stalled' not in errors[-1] else None
        pool.join()

    t_pool = time.time() - t0
    if errors:
        print(f'HARNESS-ERROR property={pid} ({len(errors)} shard error(s)); first:', file=sys.stderr)
        print(errors[0], file=sys.stderr)
        return 2

    known = known_for(pid)
    violations = []
    known_hit = []
    for fp in sorted(total.findings):
        sz, case, detail, n = total.findings[fp]
        e = known.get(fp)
        if e is not None and e.get('status') == 'open':
            known_hit.append((fp, e, n))
            continue
        small = shrink(mod, fp, case)
        if small is not case:
            try:
                detail = dict(replay_any(mod, small)).get(fp, detail)
            except Exception:
                pass
        path = write_replay(pid, fp, small, detail)
        violations.append((fp, path, detail, n))

    for fp, e, n in known_hit:
        print(f'KNOWN-FINDING: property={pid} {e["what_fails"]} [{fp}] (seen {n}x this run)')
    for fp, path, detail, n in violations:
        print(f'VIOLATION property={pid} replay={path}')
        print(f'  fingerprint: {fp}  (seen {n}x)')
        print(f'  detail: {detail}')

    wall = time.time() - t0
    if os.environ.get('VERIF_DEBUG'):
        print(f'debug: pool phase {t_pool:.1f}s, shard cpu sum {sum(walls):.1f}s max {max(walls or [0]):.1f}s, '
              f'post phase {wall - t_pool:.1f}s', file=sys.stderr)
    cov = dict(
        evaluations=total.evaluations,
        distinct_nontrivial=len(total.nontrivial) + int(total.extra.get('bulk_distinct_nontrivial', 0)),
        rule=mod.RULE,
        samples=total.samples[:MAX_SAMPLES],
        classes=dict(sorted(total.classes.items())),
        inconclusive=total.inconclusive,
        excluded_known=total.excluded,
        regress_cases_replayed=nreg,
        shards=len(shards),
        known_findings_seen=[fp for fp, _, _ in known_hit],
        exhaustive=bool(getattr(mod, 'EXHAUSTIVE', {}).get(tier, False)),
    )
    cov.update(total.extra)
    ev = dict(
        property_id=pid, tier=tier, seed=seed, level=mod.LEVEL, coverage=cov,
        assumptions=list(mod.ASSUMPTIONS), wall_s=round(wall, 2), violations=len(violations))
    os.makedirs(os.path.join(OUT, 'evidence'), exist_ok=True)
    with open(os.path.join(OUT, 'evidence', f'{pid}.json'), 'w') as f:
        json.dump(ev, f, indent=1, default=str)
    print(f'{pid} {tier} seed={seed}: {total.evaluations} evaluations, '
          f'{len(total.nontrivial) + int(total.extra.get("bulk_distinct_nontrivial", 0))} distinct non-trivial, {total.inconclusive} inconclusive, '
          f'{total.excluded} excluded-known, {len(known_hit)} known finding(s), '
          f'{len(violations)} violation(s), {wall:.1f}s')
    return 1 if violations else 0


def replay_file(pid, path):
    mod = importlib.import_module(f'vf.props.{pid.lower()}')
    with open(path) as f:
        doc = json.load(f)
    case = doc['case'] if 'case' in doc else doc
    res = replay_any(mod, case)
    known = known_for(pid)
    rc = 0
    if not res:
        print(f'replay {path}: property holds on this input')
    for fp, detail in res:
        e = known.get(fp)
        if e is not None and e.get('status') == 'open':
            print(f'KNOWN-FINDING: property={pid} {e["what_fails"]} [{fp}]')
        else:
            print(f'VIOLATION property={pid} replay={path}')
            rc = 1
        print(f'  fingerprint: {fp}\n  detail: {detail}')
    return rc


def main(argv=None):
    argv = list(sys.argv[1:] if argv is None else argv)
    if len(argv) < 2:
        print('usage: check <ID> quick|thorough | check <ID> --replay <file>', file=sys.stderr)
        return 2
    pid = argv[0].upper()
    try:
        if argv[1] == '--replay':
            return replay_file(pid, argv[2])
        tier = argv[1]
        if tier not in ('quick', 'thorough'):
            raise SystemExit(f'bad tier {tier}')
        seed = int(os.environ.get('VERIF_SEED', '1') or 1)
        return run(pid, tier, seed)
    except SystemExit:
        raise
    except BaseException:
        print(f'HARNESS-ERROR property={pid}', file=sys.stderr)
        traceback.print_exc()
        return 2


if __name__ == '__main__':
    sys.exit(main())
