"""Driving the prover through its public API; outcome classes shared by C01-C03, C09-C11, C16, C17, C19."""
from __future__ import annotations

import hashlib

from . import ast as A


def reseed(order=0):
    "Select the tie-break schedule (guarded hook in pytableaux.proof.common); no-op without the hook."
    from pytableaux.proof import common
    f = getattr(common, '_verif_reseed', None)
    if f is not None:
        f(order)
        return True
    return False


def make_tableau(logic, premises, conclusion, *, group=True, rank=True, max_steps=None,
                 models=False, order=0, **extra):
    from pytableaux.proof import Tableau
    from .lib import get_logic
    # importing a logic module builds example tableaux (rule class initialisation) and would consume
    # creation serials: make sure it has happened before the schedule is (re)seeded
    get_logic(logic)
    arg = A.arg_to_lib(premises, conclusion)
    reseed(order)
    opts = dict(is_group_optim=group, is_rank_optim=rank, is_build_models=models)
    if max_steps is not None:
        opts['max_steps'] = max_steps
    opts.update(extra)
    return Tableau(logic, arg, **opts)


def build(logic, premises, conclusion, *, stepwise=False, **kw):
    tab = make_tableau(logic, premises, conclusion, **kw)
    if stepwise:
        while tab.step() is not None:
            pass
        if not tab.finished:
            tab.finish()
    else:
        tab.build()
    return tab


def is_quit_flag(node):
    return type(node).__name__ == 'QuitFlagNode' or node.get('flag') == 'quit'


def has_quit_flag(branch):
    return any(is_quit_flag(n) for n in branch)


def limit_free_open(tab):
    return [b for b in tab.open if not has_quit_flag(b)]


def outcome(tab):
    """'valid' | 'invalid' (completed, some open branch without a limit flag) | 'limited'."""
    if not tab.finished or tab.premature:
        return 'limited'
    if tab.valid is True:
        return 'valid'
    if tab.invalid is True:
        return 'invalid' if limit_free_open(tab) else 'limited'
    return 'limited'


def any_quit_flag(tab):
    return any(has_quit_flag(b) for b in tab)


def history_sig(tab):
    h = hashlib.blake2b(digest_size=8)
    for e in tab.history:
        t = e.target
        h.update(repr((e.rule.name, len(t.branch), str(t.get('sentence')), t.get('world'),
                       t.get('world1'), t.get('world2'), str(t.get('constant')))).encode())
    return h.hexdigest()


def rules_used(tab):
    return sorted({e.rule.name for e in tab.history})


def node_desc(node):
    "Plain-data description of a node: (kind, sentence AST|None, designated|None, world|None, w1, w2)."
    s = node.get('sentence')
    return dict(
        kind=type(node).__name__,
        sentence=A.from_lib(s) if s is not None else None,
        designated=node.get('designated'),
        world=node.get('world'),
        world1=node.get('world1'), world2=node.get('world2'),
        flag=node.get('flag'))


def case_str(case):
    prem = [A.from_json(p) for p in case['premises']]
    con = A.from_json(case['conclusion'])
    opts = []
    if 'group' in case:
        opts.append('group=' + ('on' if case['group'] else 'off'))
    if 'rank' in case:
        opts.append('rank=' + ('on' if case['rank'] else 'off'))
    if 'order' in case:
        opts.append(f'order={case["order"]}')
    return f'{case["logic"]} | {A.show_arg(prem, con)}' + (' | ' + ' '.join(opts) if opts else '')


def mk_case(logic, premises, conclusion, **kw):
    return dict(logic=logic, premises=[A.to_json(p) for p in premises],
                conclusion=A.to_json(conclusion), **kw)


def case_args(case):
    return (case['logic'], [A.from_json(p) for p in case['premises']], A.from_json(case['conclusion']))


# ---------------------------------------------------------------- structural shrinking of arguments

def sentence_shrinks(s):
    "Smaller variants of one sentence: a child, an atom, or a variant with one child shrunk."
    t = s[0]
    if t == 'A':
        if s != A.atom(0):
            yield A.atom(0)
        return
    for c in A.children(s):
        if not A.free_variables(c):
            yield c
    yield A.atom(0)
    if t == 'O':
        for i, c in enumerate(s[2]):
            for c2 in sentence_shrinks(c):
                yield ('O', s[1], s[2][:i] + (c2,) + s[2][i + 1:])
    elif t == 'Q':
        for b2 in sentence_shrinks(s[3]):
            if s[2] in A.variables(b2):
                yield ('Q', s[1], s[2], b2)


def argument_shrinks(case):
    prem = case['premises']
    for i in range(len(prem)):
        c = dict(case)
        c['premises'] = prem[:i] + prem[i + 1:]
        yield c
    for i, p in enumerate(prem):
        for p2 in sentence_shrinks(A.from_json(p)):
            c = dict(case)
            c['premises'] = prem[:i] + [A.to_json(p2)] + prem[i + 1:]
            yield c
    for c2 in sentence_shrinks(A.from_json(case['conclusion'])):
        c = dict(case)
        c['conclusion'] = A.to_json(c2)
        yield c
