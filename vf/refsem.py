"""Reference semantics for the 57 logics, written from the prose of
/repo/doc/logics/*.rst and the literature cited there -- never by calling the
library's TruthFunction / value_of.  Values are the strings 'F','N','B','T'.

Sources quoted per clause (doc file : sentence):

* fde.rst / Priest, Anderson&Belnap: four values, designated {T,B}; the
  Belnap-Dunn lattice F < N,B < T with N,B incomparable (N & B = F, N V B = T).
  (The FDE doc page prints a linear order F<N<B<T; see DESIGN.md section 4.)
* k3.rst: F<N<T, min/max, designated {T}.  lp.rst: F<B<T, designated {T,B}.
* l3.rst: K3 plus the Lukasiewicz conditional (N $ N = T).
* rm3.rst: LP plus the RM3 conditional (F when antecedent > consequent).
* k3w.rst: weak Kleene, N infectious for & and V.
* b3e.rst: K3W tables, external assertion *A (T iff A is T, else F),
  "A $ B := ~*A V *B".
* g3.rst: K3 with ~N = F and the Goedel conditional.
* mh.rst / Caret 2017: K3 but N V N = F; conditional F iff antecedent T and
  consequent not T, else T.
* nh.rst / Caret 2017: LP but B & B = T; conditional F iff antecedent not F and
  consequent F, else T.
* go.rst: ~ as K3; & and V on "crunched" values; "*A := A & A";
  "A $ B := (A > B) V (~(A V ~A) & ~(B V ~B))".
* p3.rst / Rescher: cyclic negation T->N->F->T, V = max, "A & B := ~(~A V ~B)".
* include/material_defines.rst: "A > B := ~A V B", "A < B := (A > B) & (B > A)".
* include/bicond_define.rst: "A % B := (A $ B) & (B $ A)".
* "Compatibility tables": a logic without its own conditional reads $ as >,
  and * is transparent where not native.
* quantifiers / modal operators: see ``generalise`` below.
"""
from __future__ import annotations

from itertools import product

from . import ast as A

# ------------------------------------------------------------------ logic table

FRAMES = (None, 'K', 'D', 'T', 'S4', 'S5')

LOGICS: dict[str, tuple[str, str | None]] = {
    'CPL': ('CPL', None), 'CFOL': ('CFOL', None),
    'K': ('CFOL', 'K'), 'D': ('CFOL', 'D'), 'T': ('CFOL', 'T'),
    'S4': ('CFOL', 'S4'), 'S5': ('CFOL', 'S5'),
    'MH': ('MH', None), 'NH': ('NH', None), 'P3': ('P3', None),
    'GO': ('GO', None), 'S4GO': ('GO', 'S4'),
}
for _b in ('FDE', 'K3', 'LP', 'L3', 'RM3', 'K3W', 'K3WQ', 'B3E', 'G3'):
    LOGICS[_b] = (_b, None)
    for _f in ('K', 'T', 'S4', 'S5'):
        LOGICS[_f + _b] = (_b, _f)

VALUES = {
    'CPL': 'FT', 'CFOL': 'FT', 'FDE': 'FNBT', 'LP': 'FBT', 'RM3': 'FBT', 'NH': 'FBT'}
DESIGNATED = {
    'CPL': 'T', 'CFOL': 'T', 'FDE': 'BT', 'LP': 'BT', 'RM3': 'BT', 'NH': 'BT'}
QUANTIFIED = {b: True for b in (
    'CFOL', 'FDE', 'K3', 'LP', 'L3', 'RM3', 'K3W', 'K3WQ', 'B3E', 'G3', 'MH', 'NH', 'GO')}
CLASSICAL = ('CPL', 'CFOL')

def base_of(logic): return LOGICS[logic][0]
def frame_of(logic): return LOGICS[logic][1]
def values(logic): return VALUES.get(base_of(logic), 'FNT')
def designated(logic): return DESIGNATED.get(base_of(logic), 'T')
def is_modal(logic): return frame_of(logic) is not None
def is_quantified(logic): return QUANTIFIED.get(base_of(logic), False)
def is_classical(logic): return base_of(logic) in CLASSICAL

# ------------------------------------------------------------------ primitive tables

def _tbl(vals, *rows):
    return {(a, b): rows[i][j] for i, a in enumerate(vals) for j, b in enumerate(vals)}

def _un(vals, out):
    return dict(zip(vals, out))

NEG_STD4 = _un('FNBT', 'TNBF')
FDE_CONJ = _tbl('FNBT', 'FFFF', 'FNFN', 'FFBB', 'FNBT')
FDE_DISJ = _tbl('FNBT', 'FNBT', 'NNTT', 'BTBT', 'TTTT')

K3_CONJ = _tbl('FNT', 'FFF', 'FNN', 'FNT')
K3_DISJ = _tbl('FNT', 'FNT', 'NNT', 'TTT')
LP_CONJ = _tbl('FBT', 'FFF', 'FBB', 'FBT')
LP_DISJ = _tbl('FBT', 'FBT', 'BBT', 'TTT')
CL_CONJ = _tbl('FT', 'FF', 'FT')
CL_DISJ = _tbl('FT', 'FT', 'TT')
K3W_CONJ = _tbl('FNT', 'FNF', 'NNN', 'FNT')
K3W_DISJ = _tbl('FNT', 'FNT', 'NNN', 'TNT')
L3_COND = _tbl('FNT', 'TTT', 'NTT', 'FNT')
RM3_COND = _tbl('FBT', 'TTT', 'FBT', 'FFT')
G3_NEG = _un('FNT', 'TFF')
G3_COND = _tbl('FNT', 'TTT', 'FTT', 'FNT')
MH_DISJ = _tbl('FNT', 'FNT', 'NFT', 'TTT')
MH_COND = _tbl('FNT', 'TTT', 'TTT', 'FFT')
NH_CONJ = _tbl('FBT', 'FFF', 'FTB', 'FBT')
NH_COND = _tbl('FBT', 'TTT', 'FTT', 'FTT')
P3_NEG = _un('FNT', 'TFN')
GO_CONJ = _tbl('FNT', 'FFF', 'FFF', 'FFT')
GO_DISJ = _tbl('FNT', 'FFT', 'FFT', 'TTT')
EXT_ASSERT = _un('FNT', 'FFT')

class Tables:
    "Truth functions of one base logic, every defined operator derived by its documented definition."

    def __init__(self, base):
        self.base = base
        vals = VALUES.get(base, 'FNT')
        self.vals = vals
        neg = {v: NEG_STD4[v] for v in vals}
        assertion = {v: v for v in vals}          # transparent unless native
        cond = None                               # None => compatibility reading: $ is >
        if base in CLASSICAL:
            conj, disj = CL_CONJ, CL_DISJ
        elif base == 'FDE':
            conj, disj = FDE_CONJ, FDE_DISJ
        elif base == 'K3':
            conj, disj = K3_CONJ, K3_DISJ
        elif base == 'LP':
            conj, disj = LP_CONJ, LP_DISJ
        elif base == 'L3':
            conj, disj, cond = K3_CONJ, K3_DISJ, L3_COND
        elif base == 'RM3':
            conj, disj, cond = LP_CONJ, LP_DISJ, RM3_COND
        elif base in ('K3W', 'K3WQ'):
            conj, disj = K3W_CONJ, K3W_DISJ
        elif base == 'B3E':
            conj, disj = K3W_CONJ, K3W_DISJ
            assertion = EXT_ASSERT
            # "A $ B := ~*A V *B"
            cond = {(a, b): disj[neg[assertion[a]], assertion[b]] for a in vals for b in vals}
        elif base == 'G3':
            conj, disj, neg, cond = K3_CONJ, K3_DISJ, G3_NEG, G3_COND
        elif base == 'MH':
            conj, disj, cond = K3_CONJ, MH_DISJ, MH_COND
        elif base == 'NH':
            conj, disj, cond = NH_CONJ, LP_DISJ, NH_COND
        elif base == 'GO':
            conj, disj = GO_CONJ, GO_DISJ
            # "*A := A & A"
            assertion = {v: conj[v, v] for v in vals}
        elif base == 'P3':
            neg, disj = P3_NEG, K3_DISJ
            # "A & B := ~(~A V ~B)"
            conj = {(a, b): neg[disj[neg[a], neg[b]]] for a in vals for b in vals}
        else:
            raise KeyError(base)
        self.neg, self.conj, self.disj, self.assertion = neg, conj, disj, assertion
        # "A > B := ~A V B"
        self.matcond = {(a, b): disj[neg[a], b] for a in vals for b in vals}
        # "A < B := (A > B) & (B > A)"
        self.matbicond = {(a, b): conj[self.matcond[a, b], self.matcond[b, a]] for a in vals for b in vals}
        if base == 'GO':
            # "A $ B := (A > B) V (~(A V ~A) & ~(B V ~B))"
            gap = {v: neg[disj[v, neg[v]]] for v in vals}
            cond = {(a, b): disj[self.matcond[a, b], conj[gap[a], gap[b]]] for a in vals for b in vals}
        self.cond = cond if cond is not None else dict(self.matcond)
        # "A % B := (A $ B) & (B $ A)"
        self.bicond = {(a, b): conj[self.cond[a, b], self.cond[b, a]] for a in vals for b in vals}

    def apply(self, oper, *args):
        if oper == 'Negation': return self.neg[args[0]]
        if oper == 'Assertion': return self.assertion[args[0]]
        t = {'Conjunction': self.conj, 'Disjunction': self.disj,
             'MaterialConditional': self.matcond, 'MaterialBiconditional': self.matbicond,
             'Conditional': self.cond, 'Biconditional': self.bicond}[oper]
        return t[args]

_TABLES: dict[str, Tables] = {}

def tables(logic) -> Tables:
    b = base_of(logic)
    try:
        return _TABLES[b]
    except KeyError:
        return _TABLES.setdefault(b, Tables(b))

# ------------------------------------------------------------------ generalised conj / disj

_RANK3 = {'F': 0, 'N': 1, 'B': 1, 'T': 2}

def generalise(logic, kind, vals, *, modal=False):
    """Value of a quantified (or modal) sentence from the collection of values of
    its instances (at the accessible worlds).  kind: 'E' (existential /
    possibility) or 'U' (universal / necessity).

    Documented clauses:
      fde/k3/lp (m.existential, m.universal, kfde m.possibility, m.necessity):
        maximum / minimum of the instance values; FDE: lattice join / meet.
      k3wq.rst: N if N is among them, else max / min (also the K3WQ modal
        extensions: "generalised disjunction/conjunction over accessible worlds").
      mh.rst: existential T if T in M; N if both N and F in M; F otherwise.
      nh.rst: universal F if F in M; B if both B and T in M; T otherwise.
      go.rst / s4go.rst: max / min of the crunched values.
    Over an empty collection (a world that sees nothing): the neutral element,
    F for 'E' and T for 'U'.
    """
    vals = list(vals)
    base = base_of(logic)
    S = set(vals)
    if base == 'FDE':
        t = tables(logic)
        out = 'F' if kind == 'E' else 'T'
        f = t.disj if kind == 'E' else t.conj
        for v in vals:
            out = f[out, v]
        return out
    if base == 'K3WQ':
        if 'N' in S:
            return 'N'
    elif base == 'GO':
        S = {'T' if v == 'T' else 'F' for v in S}
    elif base == 'MH' and kind == 'E' and not modal:
        if 'T' in S: return 'T'
        if 'N' in S and 'F' in S: return 'N'
        return 'F'
    elif base == 'NH' and kind == 'U' and not modal:
        if 'F' in S: return 'F'
        if 'B' in S and 'T' in S: return 'B'
        return 'T'
    if not S:
        return 'F' if kind == 'E' else 'T'
    pick = max if kind == 'E' else min
    return pick(S, key=_RANK3.__getitem__)

# ------------------------------------------------------------------ frames

def closure(frame, worlds, pairs):
    "The least relation over ``worlds`` containing ``pairs`` that satisfies the frame condition (not serial)."
    R = set(map(tuple, pairs))
    if frame in ('T', 'S4', 'S5'):
        R |= {(w, w) for w in worlds}
    if frame == 'S5':
        R |= {(b, a) for a, b in R}
    if frame in ('S4', 'S5'):
        changed = True
        while changed:
            changed = False
            for a, b in list(R):
                for c, d in list(R):
                    if b == c and (a, d) not in R:
                        R.add((a, d)); changed = True
    return R

def frame_ok(frame, worlds, pairs):
    R = set(map(tuple, pairs))
    ws = set(worlds)
    if any(a not in ws or b not in ws for a, b in R):
        return False
    if frame == 'D':
        return all(any((w, v) in R for v in ws) for w in ws)
    if frame in ('T', 'S4', 'S5') and any((w, w) not in R for w in ws):
        return False
    if frame in ('S4', 'S5'):
        for a, b in R:
            for c, d in R:
                if b == c and (a, d) not in R:
                    return False
    if frame == 'S5' and any((b, a) not in R for a, b in R):
        return False
    return True

# ------------------------------------------------------------------ models

class Model:
    """A finite interpretation.

    worlds : list[int]          (non-modal logics: [0])
    R      : set[(int,int)]
    consts : list[const AST]    (the domain; non-empty whenever a quantifier is evaluated)
    atoms  : {world: {atom AST: value}}
    preds  : {world: {pred: {param-tuple: value}}}
    opaque : {world: {sentence AST: value}}   uninterpreted sentences, treated as atoms
    default: value of anything not listed (None => KeyError, used by generators
             that assign everything explicitly)
    """

    def __init__(self, logic, worlds=(0,), R=(), consts=(), atoms=None, preds=None,
                 opaque=None, default=None):
        self.logic = logic
        self.worlds = list(worlds)
        self.R = set(map(tuple, R))
        self.consts = list(consts)
        self.atoms = atoms or {}
        self.preds = preds or {}
        self.opaque = opaque or {}
        self.default = default
        self.opaque_fill = None     # optional callable (world, sentence) -> value for unseen opaque sentences
        self.t = tables(logic)

    # -- serialisation
    def to_json(self):
        return dict(
            logic=self.logic, worlds=self.worlds, R=sorted(self.R),
            consts=A.to_json(tuple(self.consts)),
            atoms=[[w, A.to_json(k), v] for w, m in sorted(self.atoms.items()) for k, v in sorted(m.items(), key=repr)],
            preds=[[w, A.to_json(p) if not isinstance(p, str) else p, A.to_json(k), v]
                   for w, m in sorted(self.preds.items())
                   for p, ext in sorted(m.items(), key=lambda kv: str(kv[0]))
                   for k, v in sorted(ext.items(), key=repr)],
            opaque=[[w, A.to_json(k), v] for w, m in sorted(self.opaque.items()) for k, v in sorted(m.items(), key=repr)],
            default=self.default)

    @classmethod
    def from_json(cls, d):
        m = cls(d['logic'], d['worlds'], [tuple(p) for p in d['R']],
                [A.from_json(c) for c in d['consts']], default=d.get('default'))
        for w, k, v in d['atoms']:
            m.atoms.setdefault(w, {})[A.from_json(k)] = v
        for w, p, k, v in d['preds']:
            p = p if isinstance(p, str) else tuple(p)
            m.preds.setdefault(w, {}).setdefault(p, {})[A.from_json(k)] = v
        for w, k, v in d['opaque']:
            m.opaque.setdefault(w, {})[A.from_json(k)] = v
        return m

    def describe(self):
        parts = [f'{self.logic} W={self.worlds} R={sorted(self.R)} D={[A.std(c) for c in self.consts]}']
        for w in self.worlds:
            items = [f'{A.show(k)}={v}' for k, v in sorted(self.atoms.get(w, {}).items(), key=repr)]
            for p, ext in sorted(self.preds.get(w, {}).items(), key=lambda kv: str(kv[0])):
                for k, v in sorted(ext.items(), key=repr):
                    items.append(f'{A.show(("P", p, k))}={v}')
            items += [f'[{A.show(k)}]={v}' for k, v in sorted(self.opaque.get(w, {}).items(), key=repr)]
            parts.append(f'w{w}: ' + ' '.join(items))
        return ' | '.join(parts)

    # -- evaluation
    def _dflt(self, what):
        if self.default is None:
            raise KeyError(what)
        return self.default

    def is_opaque(self, s):
        if s[0] == 'Q' and not is_quantified(self.logic):
            return True
        if s[0] == 'O' and s[1] in A.MODAL_OPS and not is_modal(self.logic):
            return True
        return False

    def value(self, s, w=0):
        if self.is_opaque(s):
            try:
                return self.opaque[w][s]
            except KeyError:
                if self.opaque_fill is not None:
                    v = self.opaque.setdefault(w, {})[s] = self.opaque_fill(w, s)
                    return v
                return self._dflt(('opaque', w, s))
        t = s[0]
        if t == 'A':
            try:
                return self.atoms[w][s]
            except KeyError:
                return self._dflt(('atom', w, s))
        if t == 'P':
            try:
                return self.preds[w][s[1]][s[2]]
            except KeyError:
                return self._dflt(('pred', w, s))
        if t == 'O':
            o = s[1]
            if o in A.MODAL_OPS:
                kind = 'E' if o == 'Possibility' else 'U'
                vals = [self.value(s[2][0], v) for (u, v) in sorted(self.R) if u == w]
                return generalise(self.logic, kind, vals, modal=True)
            return self.t.apply(o, *(self.value(c, w) for c in s[2]))
        if t == 'Q':
            kind = 'E' if s[1] == 'Existential' else 'U'
            if not self.consts:
                raise ValueError('empty domain')
            vals = [self.value(A.instantiate(s, c), w) for c in self.consts]
            return generalise(self.logic, kind, vals)
        raise ValueError(s)

    def designates(self, s, w=0):
        return self.value(s, w) in designated(self.logic)

    def is_countermodel(self, premises, conclusion, w=0):
        return all(self.designates(p, w) for p in premises) and not self.designates(conclusion, w)

    def classical_ok(self):
        """Classical family only: identity is an equivalence at each world, every
        predicate's extension is closed under it, existence holds of every constant."""
        if not is_classical(self.logic):
            return True
        cs = self.consts
        for w in self.worlds:
            P = self.preds.get(w, {})
            idn = P.get('Identity', {})
            eq = lambda a, b: idn.get((a, b), 'F') == 'T'
            for a in cs:
                if not eq(a, a): return False
                if P.get('Existence', {}).get((a,), 'T') != 'T' and 'Existence' in P:
                    return False
                for b in cs:
                    if eq(a, b) != eq(b, a): return False
                    for c in cs:
                        if eq(a, b) and eq(b, c) and not eq(a, c): return False
            for p, ext in P.items():
                for params, v in ext.items():
                    for i, a in enumerate(params):
                        for b in cs:
                            if a != b and eq(a, b):
                                other = params[:i] + (b,) + params[i + 1:]
                                if ext.get(other, self.default or 'F') != v:
                                    return False
        return True

# ------------------------------------------------------------------ propositional validity

def prop_atoms(sentences):
    "The 'atoms' of a quantifier-free, modality-free argument: sentence letters and predications."
    out = set()
    for s in sentences:
        for x in A.subsentences(s):
            if x[0] in 'AP':
                out.add(x)
    return sorted(out, key=repr)

def prop_value(logic, s, val):
    t = s[0]
    if t in 'AP':
        return val[s]
    tb = tables(logic)
    return tb.apply(s[1], *(prop_value(logic, c, val) for c in s[2]))

def prop_countermodels(logic, premises, conclusion):
    "Yield every assignment that designates all premises and not the conclusion."
    atoms = prop_atoms([*premises, conclusion])
    D = designated(logic)
    for combo in product(values(logic), repeat=len(atoms)):
        val = dict(zip(atoms, combo))
        if all(prop_value(logic, p, val) in D for p in premises) and \
                prop_value(logic, conclusion, val) not in D:
            yield val

def prop_valid(logic, premises, conclusion):
    for _ in prop_countermodels(logic, premises, conclusion):
        return False
    return True

# ------------------------------------------------------------------ self test

def selftest():
    """Algebraic sanity laws of the reference itself (run by setup_cmd)."""
    errs = []
    for logic, (base, frame) in LOGICS.items():
        t = tables(logic)
        V = values(logic)
        for a in V:
            if base not in ('G3', 'P3') and t.neg[t.neg[a]] != a:
                errs.append((logic, 'double negation', a))
            for b in V:
                if t.conj[a, b] != t.conj[b, a] or t.disj[a, b] != t.disj[b, a]:
                    errs.append((logic, 'commutativity', a, b))
                if t.matcond[a, b] != t.disj[t.neg[a], b]:
                    errs.append((logic, 'matcond def', a, b))
                if base in ('FDE', 'K3', 'LP', 'L3', 'RM3', 'K3W', 'K3WQ', 'B3E', 'CPL', 'CFOL'):
                    # De Morgan holds for these negations
                    if t.neg[t.conj[a, b]] != t.disj[t.neg[a], t.neg[b]]:
                        errs.append((logic, 'de morgan', a, b))
        # classical restriction of every table equals CPL
        cl = tables('CPL')
        for oper, n in A.OPS.items():
            if oper in A.MODAL_OPS:
                continue
            for args in product('FT', repeat=n):
                if base == 'P3' and oper != 'Disjunction':
                    continue  # Post negation is not classical on {T,F}
                if t.apply(oper, *args) != cl.apply(oper, *args):
                    errs.append((logic, 'classical restriction', oper, args))
    # FDE lattice laws
    t = tables('FDE')
    for a, b, c in product('FNBT', repeat=3):
        if t.conj[a, t.disj[a, b]] != a:
            errs.append(('FDE', 'absorption', a, b))
        if t.conj[a, t.conj[b, c]] != t.conj[t.conj[a, b], c]:
            errs.append(('FDE', 'assoc', a, b, c))
    return errs

if __name__ == '__main__':
    e = selftest()
    print('refsem selftest:', 'ok' if not e else e)
    raise SystemExit(1 if e else 0)
