"""Diagnosis of prover-level failures: which applied rule is locally inexact?

For every recorded application of a truth-functional operator rule the
expansion is checked against the reference tables with the
non-truth-functional leaves of the sentences involved abstracted to placeholders:

    node satisfied  <=>  all added nodes of at least one extension satisfied

for every assignment of the logic's values to the placeholders.  This is the
C04 oracle applied to the steps of a real proof; it is used (a) to attribute a
wrong verdict to a root cause (the fingerprint), (b) as an extra stream of C04.
"""
from __future__ import annotations

from itertools import product

from . import ast as A
from . import refsem as R

IMPL_METHODS = ('_get_sdw_targets', '_get_sd_targets', '_get_node_targets', '_get_targets', '_get_constant_nodes')


def impl_name(rule):
    "module.Class of the class that implements the expansion, plus the concrete rule name."
    cls = type(rule)
    for k in cls.__mro__:
        if any(m in k.__dict__ for m in IMPL_METHODS):
            mod = k.__module__.rsplit('.', 1)[-1]
            return f'{mod}.{k.__name__}', cls.__name__
    return f'{cls.__module__.rsplit(".", 1)[-1]}.{cls.__name__}', cls.__name__


def _strip(s):
    "(negated, core) for one leading negation."
    if s[0] == 'O' and s[1] == 'Negation':
        return True, s[2][0]
    return False, s


def components(s):
    """Immediate components of a (possibly negated) truth-functionally compound sentence, or None."""
    negated, core = _strip(s)
    if core[0] == 'O' and core[1] in A.TF_OPS:
        return core[2]
    return None


def _abstract(s, table):
    "Replace every maximal non-truth-functional sub-sentence (atom, predication, quantified, modal) by a placeholder."
    if s[0] == 'O' and s[1] in A.TF_OPS:
        return ('O', s[1], tuple(_abstract(c, table) for c in s[2]))
    return table.setdefault(s, ('A', 100 + len(table), 0))


MAX_LEAVES = 5


def satisfied(logic, value, designated):
    if designated is None:
        return value == 'T'
    return (value in R.designated(logic)) == bool(designated)


def step_exact(logic, node, groups):
    """node: (sentence AST, designated, world); groups: list of lists of such triples.
    Returns None if exact, else a dict describing the first failing assignment."""
    s, d, w = node
    comps = components(s)
    if comps is None:
        return None
    table = {}
    s_abs = _abstract(s, table)
    groups_abs = []
    for g in groups:
        ga = []
        for (gs, gd, gw) in g:
            if gw != w:
                return dict(kind='world', detail=f'added node at world {gw}, node at world {w}')
            ga.append((_abstract(gs, table), gd))
        groups_abs.append(ga)
    holes = sorted(table.values())
    if len(holes) > MAX_LEAVES:
        return None
    inv = {v: k for k, v in table.items()}
    for combo in product(R.values(logic), repeat=len(holes)):
        val = dict(zip(holes, combo))
        lhs = satisfied(logic, R.prop_value(logic, s_abs, val), d)
        rhs = any(all(satisfied(logic, R.prop_value(logic, gs, val), gd) for gs, gd in ga) for ga in groups_abs)
        if lhs != rhs:
            return dict(kind='too-strong' if lhs else 'too-weak',
                        assignment={A.show(inv[h]): v for h, v in val.items()})
    return None


def entry_triples(entry):
    "Plain data of one history entry, or None when it is not an operator-rule application with adds."
    t = entry.target
    node = t.get('node')
    adds = t.get('adds')
    if node is None or adds is None:
        return None
    s = node.get('sentence')
    if s is None:
        return None
    try:
        nd = (A.from_lib(s), node.get('designated'), node.get('world'))
        groups = []
        for g in adds:
            gg = []
            for n in g:
                ns = n.get('sentence')
                if ns is None:
                    return None
                gg.append((A.from_lib(ns), n.get('designated'), n.get('world')))
            groups.append(gg)
    except TypeError:
        return None
    return nd, groups


def inexact_steps(tab):
    "[(impl, rule-name, failure)] for every applied operator rule whose expansion is not exact."
    logic = tab.logic.Meta.name
    out = {}
    for entry in tab.history:
        tr = entry_triples(entry)
        if tr is None:
            continue
        bad = step_exact(logic, *tr)
        if bad is not None:
            impl, name = impl_name(entry.rule)
            out.setdefault((impl, name), bad)
    return [(impl, name, bad) for (impl, name), bad in sorted(out.items())]


def attribute(tab, direction=None):
    """Root-cause tags for a wrong verdict.  direction 'unsound' (closed too much) is explained by
    too-strong expansions, 'incomplete' (left open too much) by too-weak ones; None takes both.
    Returns a non-empty list; ['unattributed'] when no applied rule is locally inexact."""
    want = {'unsound': ('too-strong', 'world'), 'incomplete': ('too-weak', 'world')}.get(direction)
    tags = []
    for impl, name, bad in inexact_steps(tab):
        if want is None or bad['kind'] in want:
            tags.append(f'rule:{impl}/{name}')
    return tags or ['unattributed']
