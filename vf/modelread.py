"""Reading a library model's raw data (frames, access, constants) into a reference model,
and satisfaction of tableau nodes by reference models."""
from __future__ import annotations

from . import ast as A
from . import refsem as R

# Completion value of anything a model does not mention (documented per logic as the
# "unassigned" value; C07 checks the code's Meta.unassigned_value against this table).
UNASSIGNED = {'LP': 'F', 'RM3': 'F', 'NH': 'F', 'CPL': 'F', 'CFOL': 'F'}


def unassigned(logic):
    return UNASSIGNED.get(R.base_of(logic), 'N')


def read_model(name, model) -> R.Model:
    "Raw data of a finished library model -> reference model (no library evaluation involved)."
    rel = set()
    for w1, seen in model.R.items():
        for w2 in seen:
            rel.add((w1, w2))
    frame_worlds = sorted(model.frames)
    # a serial completion may add a world that has no frame of its own
    worlds = sorted(set(frame_worlds) | set(model.R) | {w for p in rel for w in p})
    consts = sorted(A.from_lib(c) for c in model.constants)
    empty = not consts
    if empty:
        # domains are non-empty: a model that names no constant is read as having one anonymous
        # element about which nothing is asserted (everything takes the unassigned value)
        consts = [A.const(0)]
    m = R.Model(name, worlds, rel, consts, default=unassigned(name))
    m.empty_domain = empty
    for w in frame_worlds:
        fr = model.frames[w]
        m.atoms[w] = {A.from_lib(s): str(v) for s, v in fr.atomics.items()}
        m.opaque[w] = {A.from_lib(s): str(v) for s, v in fr.opaques.items()}
        P = m.preds[w] = {}
        for pred, interp in fr.predicates.items():
            P[A.pred_from_lib(pred)] = {tuple(A.from_lib(p) for p in params): str(v) for params, v in interp.items()}
    return m


def node_satisfied(m: R.Model, node, f_const=None, f_world=None):
    """Is a tableau node (plain dict from prover.node_desc) satisfied by the reference model?
    f_const / f_world optionally map branch constants / world labels into the model."""
    name = m.logic
    if node['world1'] is not None:
        a, b = node['world1'], node['world2']
        if f_world is not None:
            a, b = f_world[a], f_world[b]
        return (a, b) in m.R
    s = node['sentence']
    if s is None:
        return True
    if f_const:
        s = A.subst_map(s, f_const)
    w = node['world']
    if w is None:
        w = 0
    if f_world is not None:
        w = f_world[w]
    v = m.value(s, w)
    d = node['designated']
    if d is None:
        return v == 'T'
    return (v in R.designated(name)) == bool(d)


def shape_of(node):
    s = node['sentence']
    if s is None:
        return 'non-sentence'
    negated = False
    if s[0] == 'O' and s[1] == 'Negation':
        negated = True
        s = s[2][0]
    if s[0] == 'O':
        base = 'DoubleNegation' if (negated and s[1] == 'Negation') else s[1] + ('Negated' if negated else '')
    elif s[0] == 'Q':
        base = s[1] + ('Negated' if negated else '')
    elif s[0] == 'P':
        base = ('Identity' if s[1] == 'Identity' else 'Existence' if s[1] == 'Existence' else 'Predicated') + ('Negated' if negated else '')
    else:
        base = 'Atomic' + ('Negated' if negated else '')
    d = node['designated']
    if d is not None:
        base += 'Designated' if d else 'Undesignated'
    return base
