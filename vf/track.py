"""Soundness tracking: follow a reference countermodel through a proof, step by step.

If (M, f) satisfies a branch before a rule application, then (M, f') must satisfy that
branch or one of the branches forked from it afterwards, for some extension f' that maps
the new constants into M's domain and the new world labels onto M's worlds (the soundness
lemma of the tableau method).  A closed branch must never be satisfied.  The first step
that breaks this names the unsound rule application.
"""
from __future__ import annotations

from itertools import product

from . import ast as A
from . import prover
from .attrib import impl_name
from .modelread import node_satisfied

CAP = 256


class Tracker:

    def __init__(self, M, tab, arg_constants=()):
        self.M = M
        self.tab = tab
        self.sat = {}
        self.seen = {}
        self.capped = False
        self.problem = None      # (kind, rule tag, description)
        self.steps = 0
        start = ({c: c for c in arg_constants}, {0: 0})
        for b in tab:
            self.sat[b] = self._extend([start], [prover.node_desc(n) for n in b])
            self.seen[b] = len(b)
        self.trunk_ok = any(self.sat.values())

    def _extend(self, maps, nodes):
        M = self.M
        out = []
        for fc, fw in maps:
            newc, neww = [], []
            for n in nodes:
                if n['sentence'] is not None:
                    for c in sorted(A.constants(n['sentence'])):
                        if c not in fc and c not in newc:
                            newc.append(c)
                for k in ('world', 'world1', 'world2'):
                    w = n[k]
                    if isinstance(w, int) and w not in fw and w not in neww:
                        neww.append(w)
                if n['sentence'] is not None and n['world'] is None and 0 not in fw and 0 not in neww:
                    neww.append(0)
            if len(M.consts) ** len(newc) * len(M.worlds) ** len(neww) > 4096:
                self.capped = True
                continue
            # a constant already in M's domain may still be a *fresh* name on the branch: it may denote anything
            for cimg in product(M.consts, repeat=len(newc)):
                fc2 = dict(fc)
                fc2.update(zip(newc, cimg))
                for wimg in product(M.worlds, repeat=len(neww)):
                    fw2 = dict(fw)
                    fw2.update(zip(neww, wimg))
                    try:
                        ok = all(node_satisfied(M, n, fc2, fw2) for n in nodes)
                    except KeyError:
                        ok = False
                    if ok:
                        out.append((fc2, fw2))
                        if len(out) >= CAP:
                            self.capped = True
                            return out
        return out

    def after_step(self, entry):
        self.steps += 1
        old, oldseen = self.sat, self.seen
        self.sat, self.seen = {}, {}
        lost = []
        children = {}
        for b in self.tab:
            if b in old:
                base, start = old[b], oldseen[b]
            else:
                p = b.parent
                base, start = old.get(p, []), oldseen.get(p, 0)
                children.setdefault(p, []).append(b)
            nodes = [prover.node_desc(n) for n in list(b)[start:]]
            new = [n for n in nodes if n['flag'] is None]
            self.sat[b] = self._extend(base, new) if new else list(base)
            self.seen[b] = len(b)
            if b.closed and self.sat[b]:
                if self.problem is None and not self.capped:
                    impl, name = impl_name(entry.rule)
                    self.problem = ('unsound-closure', f'rule:{impl}/{name}',
                                    f'step {self.steps} ({entry.rule.name}) closes a branch that the model satisfies')
                self.sat[b] = []
            elif b.closed:
                self.sat[b] = []
        # local soundness of this step: a satisfied branch must stay satisfied (itself or a child)
        tb = entry.target.branch
        if old.get(tb) and not self.capped and self.problem is None:
            alive = bool(self.sat.get(tb)) or any(self.sat.get(c) for c in children.get(tb, []))
            if not alive and not tb.closed:
                impl, name = impl_name(entry.rule)
                t = entry.target
                what = t.get('sentence') or (t.get('node') or {}).get('sentence')
                self.problem = ('unsound-step', f'rule:{impl}/{name}',
                                f'step {self.steps}: {entry.rule.name} applied to a branch the model satisfies leaves no '
                                f'satisfied extension (target sentence {what}, world {t.get("world")}, '
                                f'constant {t.get("constant")})')
            elif not alive and tb.closed and self.problem is None:
                pass

    def alive(self):
        return any(self.sat[b] for b in self.tab.open if b in self.sat)
