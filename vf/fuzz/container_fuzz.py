#!/venv/bin/python
"""atheris / libFuzzer target for C18: bytes -> a sequence of container operations -> the model-based oracle of
vf.props.c18 (Sim: a plain list + membership set, compared after every operation).

Environment: FUZZ_CONTAINER (qset|linqset|predicates), FUZZ_OUT (directory for violation.json).
Coverage is collected in pytableaux.tools (the containers) and pytableaux.lang.collect (Predicates).
"""
import json
import os
import sys

ROOT = os.path.dirname(os.path.dirname(os.path.dirname(os.path.abspath(__file__))))
sys.path[:0] = [ROOT, os.path.join(ROOT, '.deps'), os.environ.get('VERIF_REPO', '/repo')]

try:
    import atheris
except Exception as e:                                   # pragma: no cover
    print('atheris unavailable:', e)
    sys.exit(0)

with atheris.instrument_imports(include=['pytableaux.tools.linked', 'pytableaux.tools.hybrids', 'pytableaux.tools.abcs',
                                         'pytableaux.lang.collect']):
    import pytableaux.lang  # noqa
    import pytableaux.tools.hybrids  # noqa
    import pytableaux.tools.linked  # noqa

from vf.props import c18  # noqa

KIND = os.environ.get('FUZZ_CONTAINER', 'linqset')
OUT = os.environ.get('FUZZ_OUT', '.')

NAMES = ['append', 'add', 'insert', 'remove', 'discard', 'pop', 'delitem', 'delslice', 'setitem', 'setslice', 'extend',
         'update', 'reverse', 'clear', 'copy', 'ior', 'iand', 'isub', 'ixor', 'wedge' if KIND == 'linqset' else 'sort', 'selfop']


def decode(data: bytes):
    fdp = atheris.FuzzedDataProvider(data)
    nv = 10 if KIND == 'predicates' else 6
    v = lambda: fdp.ConsumeIntInRange(0, nv - 1)
    idx = lambda: fdp.ConsumeIntInRange(-7, 7)
    opt = lambda: None if fdp.ConsumeBool() else fdp.ConsumeIntInRange(-6, 6)
    vals = lambda: tuple(v() for _ in range(fdp.ConsumeIntInRange(0, 4)))
    ops = []
    while fdp.remaining_bytes() > 0 and len(ops) < 24:
        name = NAMES[fdp.ConsumeIntInRange(0, len(NAMES) - 1)]
        if name in ('append', 'add', 'remove', 'discard'):
            ops.append((name, v()))
        elif name in ('insert', 'setitem'):
            ops.append((name, idx(), v()))
        elif name in ('pop', 'reverse', 'clear', 'copy'):
            ops.append((name,))
        elif name == 'delitem':
            ops.append((name, idx()))
        elif name == 'delslice':
            ops.append((name, (opt(), opt(), [None, 1, 2, -1, -2, 3][fdp.ConsumeIntInRange(0, 5)])))
        elif name == 'setslice':
            ops.append((name, (opt(), opt(), [None, 1, 2, -1, -2, 3][fdp.ConsumeIntInRange(0, 5)]), vals()))
        elif name == 'wedge':
            ops.append((name, v(), v(), -1 if fdp.ConsumeBool() else 1))
        elif name == 'selfop':
            ops.append((name, ['ior', 'iand', 'isub', 'ixor', 'update', 'extend'][fdp.ConsumeIntInRange(0, 5)]))
        elif name == 'sort':
            ops.append((name, fdp.ConsumeBool(), fdp.ConsumeIntInRange(0, 2)))
        else:
            ops.append((name, vals()))
    return ops


def test_one(data: bytes):
    ops = decode(data)
    res, sim = c18.run_ops(KIND, ops)
    if res:
        fp, detail = res[0]
        with open(os.path.join(OUT, 'violation.json'), 'w') as f:
            json.dump(dict(fingerprint=fp, detail=detail, ops=[list(o) for o in sim.ops]), f)
        raise RuntimeError(detail)


def main():
    atheris.Setup(sys.argv, test_one)
    atheris.Fuzz()


if __name__ == '__main__':
    main()
