#!/venv/bin/python
"""atheris / libFuzzer target for C13: bytes -> text -> both the semantic oracle of vf.props.c13.

Environment: FUZZ_NOTATION (polish|standard), FUZZ_OUT (directory for violation.json).
The oracle lives inside the target (Sentence-or-ParseError, independent well-formedness walker,
fresh-parser agreement), so a finding is a property violation, not merely a crash.
"""
import json
import os
import sys

ROOT = os.path.dirname(os.path.dirname(os.path.dirname(os.path.abspath(__file__))))
sys.path[:0] = [ROOT, os.path.join(ROOT, '.deps'), os.environ.get('VERIF_REPO', '/repo')]

try:
    import atheris
except Exception as e:                                   # pragma: no cover
    print('atheris unavailable:', e)
    sys.exit(0)

with atheris.instrument_imports(include=['pytableaux.lang.parsing', 'pytableaux.lang.lex', 'pytableaux.lang.collect']):
    import pytableaux.lang  # noqa

from vf.props import c13  # noqa

NOTATION = os.environ.get('FUZZ_NOTATION', 'polish')
OUT = os.environ.get('FUZZ_OUT', '.')
ALPHA = c13.alphabet(NOTATION, thin=False) + '#'


def decode(data: bytes) -> str:
    "Map bytes onto the notation's alphabet (plus a foreign character) so that the fuzzer reaches the grammar."
    return ''.join(ALPHA[b % len(ALPHA)] for b in data)


def test_one(data: bytes):
    text = decode(data)
    res, info = c13.check_string(NOTATION, text)
    if len(text) > 2 and info['accepted']:
        # history: parse it again on a parser that has just seen it
        res2, _ = c13.check_string(NOTATION, text, history=[text])
        res = res + res2
    if res:
        fp, detail = res[0]
        with open(os.path.join(OUT, 'violation.json'), 'w') as f:
            json.dump(dict(fingerprint=fp, detail=detail, text=text), f)
        raise RuntimeError(detail)


def main():
    atheris.Setup(sys.argv, test_one)
    atheris.Fuzz()


if __name__ == '__main__':
    main()
