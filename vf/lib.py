"""Thin bridge to the library under test (public API only)."""
from __future__ import annotations

import functools


@functools.lru_cache(None)
def all_logic_names():
    from pytableaux.logics import registry
    registry.import_all()
    return tuple(sorted(registry(modname).Meta.name for modname in registry.all()))


@functools.lru_cache(None)
def get_logic(name):
    from pytableaux.logics import registry
    return registry(name)


def library_frame(e):
    "'file.py:function' of the innermost pytableaux frame of an exception's traceback, or None when the library is not involved."
    import traceback
    for f in reversed(traceback.extract_tb(e.__traceback__)):
        if '/pytableaux/' in f.filename:
            return f'{f.filename.rsplit("/", 1)[-1]}:{f.name}'
    return None
