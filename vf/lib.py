"""Thin bridge to the library under test (public API only)."""
from __future__ import annotations

import functools


@functools.lru_cache(None)
def all_logic_names():
    from pytableaux.logics import registry
    registry.import_all()
    return tuple(sorted(registry(modname).Meta.name for modname in registry.all()))


@functools.lru_cache(None)
def get_logic(name):
    from pytableaux.logics import registry
    return registry(name)
