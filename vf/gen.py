"""Hypothesis strategies: sentences, arguments and reference models.

Every random choice is drawn from Hypothesis, so each campaign is a pure
function of (code, VERIF_SEED, shard).
"""
from __future__ import annotations

from dataclasses import dataclass, field, replace

from hypothesis import strategies as st

from . import ast as A
from . import refsem as R

BIN_OPS = ('Conjunction', 'Disjunction', 'MaterialConditional', 'MaterialBiconditional',
           'Conditional', 'Biconditional')
UN_OPS = ('Negation', 'Assertion')


@dataclass(frozen=True)
class Profile:
    natoms: int = 3
    preds: tuple = ((0, 0, 1), (1, 0, 2))
    consts: tuple = (A.const(0), A.const(1), A.const(2))
    vars: tuple = (A.var(0), A.var(1), A.var(2))
    w_atom: int = 5
    w_pred: int = 0          # predications (needs consts / bound variables)
    w_ident: int = 0         # identity / existence predications
    w_neg: int = 4
    w_assert: int = 1
    w_bin: int = 8
    w_modal: int = 0
    w_quant: int = 0
    bin_ops: tuple = BIN_OPS
    max_depth: int = 3

    def for_logic(self, logic, *, modal=None, quant=None, preds=None):
        "Restrict / enable the fragments a logic interprets."
        p = self
        is_modal = R.is_modal(logic)
        is_quant = R.is_quantified(logic)
        return replace(
            p,
            w_modal=(p.w_modal if is_modal else 0) if modal is None else modal,
            w_quant=(p.w_quant if is_quant else 0) if quant is None else quant)


PROP = Profile()
FULL = Profile(w_pred=4, w_ident=1, w_modal=4, w_quant=3)
MODAL_HEAVY = Profile(w_atom=5, w_pred=1, w_modal=12, w_quant=1, w_bin=6, w_neg=4)
QUANT_HEAVY = Profile(w_atom=2, w_pred=6, w_ident=1, w_modal=2, w_quant=8, w_bin=6)


def _weighted(draw, pairs):
    pairs = [(k, w) for k, w in pairs if w > 0]
    total = sum(w for _, w in pairs)
    n = draw(st.integers(0, total - 1))
    for k, w in pairs:
        if n < w:
            return k
        n -= w
    raise AssertionError


def _force_var(draw, body, v, prof):
    "Make variable v occur in body (so the quantifier is not vacuous): construction, not rejection."
    if v in A.variables(body):
        return body
    # positions of constant parameters and of atoms
    preds = [x for x in A.subsentences(body) if x[0] == 'P' and any(p[0] == 'c' for p in x[2])]
    if preds:
        target = preds[draw(st.integers(0, len(preds) - 1))]
        idxs = [i for i, p in enumerate(target[2]) if p[0] == 'c']
        i = idxs[draw(st.integers(0, len(idxs) - 1))]
        new = ('P', target[1], target[2][:i] + (v,) + target[2][i + 1:])
        return _replace_first(body, target, new)
    leaves = [x for x in A.subsentences(body) if x[0] == 'A']
    pr = prof.preds[0] if prof.preds else (0, 0, 1)
    new = ('P', pr, tuple([v] * pr[2]))
    if leaves:
        target = leaves[draw(st.integers(0, len(leaves) - 1))]
        return _replace_first(body, target, new)
    return ('O', 'Conjunction', (new, body))


def _replace_first(s, old, new):
    done = [False]
    def rec(x):
        if not done[0] and x == old:
            done[0] = True
            return new
        t = x[0]
        if t == 'O':
            return ('O', x[1], tuple(rec(c) for c in x[2]))
        if t == 'Q':
            return ('Q', x[1], x[2], rec(x[3]))
        return x
    return rec(s)


@st.composite
def sentence(draw, prof: Profile, depth=None, bound=()):
    if depth is None:
        depth = draw(st.integers(0, prof.max_depth))
    params_ok = bool(prof.consts) or bool(bound)
    if depth <= 0:
        kind = _weighted(draw, [
            ('atom', prof.w_atom),
            ('pred', prof.w_pred if params_ok and prof.preds else 0),
            ('ident', prof.w_ident if params_ok else 0)]) if (
                prof.w_atom or (prof.w_pred and params_ok) or (prof.w_ident and params_ok)) else 'atom'
        if kind == 'atom':
            return A.atom(draw(st.integers(0, prof.natoms - 1)))
        pool = list(bound) * 2 + list(prof.consts)
        pick = lambda: pool[draw(st.integers(0, len(pool) - 1))]
        if kind == 'pred':
            p = prof.preds[draw(st.integers(0, len(prof.preds) - 1))]
            return ('P', p, tuple(pick() for _ in range(p[2])))
        if draw(st.integers(0, 3)) == 0:
            return ('P', 'Existence', (pick(),))
        return ('P', 'Identity', (pick(), pick()))
    free_vars = [v for v in prof.vars if v not in bound]
    kind = _weighted(draw, [
        ('leaf', 2),
        ('neg', prof.w_neg), ('assert', prof.w_assert), ('bin', prof.w_bin),
        ('modal', prof.w_modal),
        ('quant', prof.w_quant if free_vars else 0)])
    if kind == 'leaf':
        return draw(sentence(prof, 0, bound))
    if kind == 'neg':
        return ('O', 'Negation', (draw(sentence(prof, depth - 1, bound)),))
    if kind == 'assert':
        return ('O', 'Assertion', (draw(sentence(prof, depth - 1, bound)),))
    if kind == 'modal':
        o = A.MODAL_OPS[draw(st.integers(0, 1))]
        return ('O', o, (draw(sentence(prof, depth - 1, bound)),))
    if kind == 'bin':
        o = prof.bin_ops[draw(st.integers(0, len(prof.bin_ops) - 1))]
        d1 = depth - 1
        d2 = draw(st.integers(0, depth - 1))
        if draw(st.booleans()):
            d1, d2 = d2, d1
        return ('O', o, (draw(sentence(prof, d1, bound)), draw(sentence(prof, d2, bound))))
    v = free_vars[0]
    q = A.QUANTS[draw(st.integers(0, 1))]
    body = draw(sentence(prof, depth - 1, bound + (v,)))
    body = _force_var(draw, body, v, prof)
    return ('Q', q, v, body)


def shapes_for(prof: Profile):
    "[(kind, operator / quantifier, negated)] -- the top-level forms a tableau rule is written for, within the profile's fragment."
    out = []
    for neg in (False, True):
        out += [('op', o, neg) for o in ('Negation', 'Assertion') + tuple(prof.bin_ops)]
        if prof.w_modal:
            out += [('op', o, neg) for o in A.MODAL_OPS]
        if prof.w_quant and prof.vars:
            out += [('quant', q, neg) for q in A.QUANTS]
    return out


@st.composite
def shaped_sentence(draw, prof: Profile, shape, depth=2):
    """A sentence whose top-level form is the given shape (so that a particular rule is the first to meet it), with drawn
    operands of depth < ``depth``."""
    kind, name, neg = shape
    if kind == 'quant':
        v = prof.vars[0]
        body = _force_var(draw, draw(sentence(prof, draw(st.integers(0, depth - 1)), (v,))), v, prof)
        s = ('Q', name, v, body)
    elif A.OPS[name] == 1:
        s = ('O', name, (draw(sentence(prof, draw(st.integers(0, depth - 1)))),))
    else:
        s = ('O', name, (draw(sentence(prof, draw(st.integers(0, depth - 1)))), draw(sentence(prof, draw(st.integers(0, depth - 1))))))
    return A.neg(s) if neg else s


@st.composite
def argument(draw, prof: Profile, max_premises=3, depth=None):
    n = draw(st.integers(0, max_premises))
    prems = tuple(draw(sentence(prof, depth)) for _ in range(n))
    concl = draw(sentence(prof, depth))
    return prems, concl


# --------------------------------------------------------------------------- reference models

def _relation(draw, frame, worlds):
    n = len(worlds)
    pairs = set()
    for a in worlds:
        for b in worlds:
            if draw(st.integers(0, 2)) == 0:
                pairs.add((a, b))
    if frame == 'D':
        for a in worlds:
            if not any(p[0] == a for p in pairs):
                pairs.add((a, worlds[draw(st.integers(0, n - 1))]))
        return pairs
    return R.closure(frame, worlds, pairs)


@st.composite
def model(draw, logic, *, max_worlds=3, max_consts=3, natoms=3, preds=((0, 0, 1), (1, 0, 2)),
          sys_preds=True):
    """A total reference model for ``logic`` over a small vocabulary."""
    frame = R.frame_of(logic)
    V = R.values(logic)
    val = lambda: V[draw(st.integers(0, len(V) - 1))]
    nw = draw(st.integers(1, max_worlds)) if frame else 1
    worlds = list(range(nw))
    rel = _relation(draw, frame, worlds) if frame else set()
    nc = draw(st.integers(1, max_consts))
    mode = draw(st.integers(0, 3))
    if mode <= 1:
        consts = [A.const(i % 4, i // 4) for i in range(nc)]
    elif mode == 2:
        # scattered names with two-digit subscripts (where string order and the lexical order disagree: a10 < a9 as text)
        pool = [A.const(i, sub) for sub in (0, 1, 2, 9, 10, 11) for i in range(4)]
        consts = list(draw(st.permutations(pool)))[:nc]
    else:
        # arbitrary names: all four letters, subscripts, not in alphabetical order of appearance
        # a window of the constants in their true order (a b c d a1 b1 ...), shuffled: names that wrap the
        # alphabet and mix subscripts are what the fresh-constant bookkeeping has to get right
        pool = [A.const(i, sub) for sub in (0, 1, 2) for i in range(4)]
        start = draw(st.integers(0, len(pool) - nc))
        consts = list(draw(st.permutations(pool[start:start + nc])))
    m = R.Model(logic, worlds, rel, consts)
    classical = R.is_classical(logic)
    for w in worlds:
        m.atoms[w] = {A.atom(i): val() for i in range(natoms)}
        P = m.preds[w] = {}
        if classical:
            # identity: an equivalence given by a class label per constant
            labels = [0]
            for i in range(1, nc):
                labels.append(draw(st.integers(0, max(labels) + 1)))
            rep = {c: consts[labels.index(labels[i])] for i, c in enumerate(consts)}
            P['Identity'] = {(a, b): ('T' if rep[a] == rep[b] else 'F') for a in consts for b in consts}
            P['Existence'] = {(a,): 'T' for a in consts}
            for p in preds:
                base = {}
                ext = {}
                for params in _tuples(consts, p[2]):
                    key = tuple(rep[x] for x in params)
                    if key not in base:
                        base[key] = val()
                    ext[params] = base[key]
                P[p] = ext
        else:
            for p in preds:
                P[p] = {params: val() for params in _tuples(consts, p[2])}
            if sys_preds:
                P['Identity'] = {params: val() for params in _tuples(consts, 2)}
                P['Existence'] = {params: val() for params in _tuples(consts, 1)}
    return m


def _tuples(consts, n):
    from itertools import product
    return list(product(consts, repeat=n))


def assign_opaques(draw, m: R.Model, sentences):
    "Give every uninterpreted sub-sentence a value at every world (they behave as atoms)."
    V = R.values(m.logic)
    seen = set()
    def visit(s):
        if m.is_opaque(s):
            if s not in seen:
                seen.add(s)
                for w in m.worlds:
                    m.opaque.setdefault(w, {})[s] = V[draw(st.integers(0, len(V) - 1))]
            return
        for c in A.children(s):
            visit(c)
    for s in sentences:
        visit(s)


_BY_BASE = {}
for _n in sorted(R.LOGICS):
    _BY_BASE.setdefault(R.base_of(_n), []).append(_n)
_BASES = sorted(_BY_BASE)


@st.composite
def logic_name(draw, pred=None):
    """Base logic first (15 of them, uniformly), then one of its frame variants: the one-off logics
    (MH, NH, P3, GO ...) get as many cases as the large families."""
    bases = [b for b in _BASES if pred is None or any(pred(n) for n in _BY_BASE[b])]
    b = bases[draw(st.integers(0, len(bases) - 1))]
    names = [n for n in _BY_BASE[b] if pred is None or pred(n)]
    return names[draw(st.integers(0, len(names) - 1))]
