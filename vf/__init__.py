"""Verification framework for owings1/pytableaux (property-based testing / fuzzing).

See /verif/DESIGN.md.  Everything here is plain Python driven by Hypothesis
strategies, exhaustive enumerations of finite sub-domains and atheris targets.
"""
