"""Independent sentence representation (nested tuples) used by every oracle.

  atom        ('A', index, subscript)
  constant    ('c', index, subscript)
  variable    ('v', index, subscript)
  predicated  ('P', pred, (param, ...))     pred = (index, subscript, arity) | 'Identity' | 'Existence'
  quantified  ('Q', 'Existential'|'Universal', variable, body)
  operated    ('O', operator-name, (operand, ...))

Nothing in the structural functions below touches pytableaux; ``to_lib`` and
``from_lib`` are the only bridge and use public constructors / attributes only.
"""
from __future__ import annotations

OPS = {
    'Assertion': 1, 'Negation': 1, 'Conjunction': 2, 'Disjunction': 2,
    'MaterialConditional': 2, 'MaterialBiconditional': 2, 'Conditional': 2,
    'Biconditional': 2, 'Possibility': 1, 'Necessity': 1}
OP_ORDER = list(OPS)
MODAL_OPS = ('Possibility', 'Necessity')
TF_OPS = tuple(o for o in OPS if o not in MODAL_OPS)
QUANTS = ('Existential', 'Universal')
SYSPREDS = {'Identity': 2, 'Existence': 1}

# ---------------------------------------------------------------- constructors

def atom(i, s=0): return ('A', i, s)
def const(i, s=0): return ('c', i, s)
def var(i, s=0): return ('v', i, s)
def pred(p, *params):
    if isinstance(p, list): p = tuple(p)
    return ('P', p, tuple(params))
def quant(q, v, body): return ('Q', q, v, body)
def op(name, *operands): return ('O', name, tuple(operands))
def neg(s): return ('O', 'Negation', (s,))

def arity(p):
    return SYSPREDS[p] if isinstance(p, str) else p[2]

# ---------------------------------------------------------------- json

def to_json(x):
    if isinstance(x, tuple):
        return [to_json(y) for y in x]
    return x

def from_json(x):
    if isinstance(x, list):
        return tuple(from_json(y) for y in x)
    return x

# ---------------------------------------------------------------- walkers

def is_sentence(x):
    return isinstance(x, tuple) and x and x[0] in ('A', 'P', 'Q', 'O')

def children(s):
    t = s[0]
    if t == 'O': return s[2]
    if t == 'Q': return (s[3],)
    return ()

def subsentences(s):
    "Pre-order, including s."
    yield s
    for c in children(s):
        yield from subsentences(c)

def depth(s):
    cs = children(s)
    return 1 + max(map(depth, cs)) if cs else 0

def size(s):
    return 1 + sum(map(size, children(s)))

def params_prefix(s):
    "All parameter occurrences in prefix order (bound-variable binders excluded)."
    t = s[0]
    if t == 'P':
        yield from s[2]
    else:
        for c in children(s):
            yield from params_prefix(c)

def constants(s):
    return frozenset(p for p in params_prefix(s) if p[0] == 'c')

def variables(s):
    "All variables occurring as parameters (free or bound), as the library's ``variables``."
    return frozenset(p for p in params_prefix(s) if p[0] == 'v')

def free_variables(s, bound=frozenset()):
    t = s[0]
    if t == 'P':
        return frozenset(p for p in s[2] if p[0] == 'v' and p not in bound)
    if t == 'Q':
        return free_variables(s[3], bound | {s[2]})
    out = frozenset()
    for c in children(s):
        out |= free_variables(c, bound)
    return out

def atoms(s):
    return frozenset(x for x in subsentences(s) if x[0] == 'A')

def predicates(s):
    return frozenset(x[1] for x in subsentences(s) if x[0] == 'P')

def operators(s):
    "Operator names in prefix order."
    return tuple(x[1] for x in subsentences(s) if x[0] == 'O')

def quantifiers(s):
    "Quantifier names in prefix order."
    return tuple(x[1] for x in subsentences(s) if x[0] == 'Q')

def subst(s, new, old):
    "Replace every occurrence of parameter ``old`` (as a predicate parameter) by ``new``."
    t = s[0]
    if t == 'A':
        return s
    if t == 'P':
        return ('P', s[1], tuple(new if p == old else p for p in s[2]))
    if t == 'Q':
        return ('Q', s[1], s[2], subst(s[3], new, old))
    return ('O', s[1], tuple(subst(c, new, old) for c in s[2]))

def subst_map(s, mp):
    "Simultaneously replace every parameter p by mp.get(p, p)."
    t = s[0]
    if t == 'A':
        return s
    if t == 'P':
        return ('P', s[1], tuple(mp.get(p, p) for p in s[2]))
    if t == 'Q':
        return ('Q', s[1], s[2], subst_map(s[3], mp))
    return ('O', s[1], tuple(subst_map(c, mp) for c in s[2]))

def instantiate(s, c):
    assert s[0] == 'Q'
    return subst(s[3], c, s[2])

def is_modal(s):
    return any(o in MODAL_OPS for o in operators(s))

def is_quantified(s):
    return any(x[0] == 'Q' for x in subsentences(s))

def binders_ok(s, bound=()):
    """Parser-language well-formedness: closed, no vacuous quantifier, no
    re-binding of a variable already bound by an enclosing quantifier."""
    t = s[0]
    if t == 'A':
        return True
    if t == 'P':
        if len(s[2]) != arity(s[1]):
            return False
        return all(p[0] == 'c' or p in bound for p in s[2])
    if t == 'Q':
        v = s[2]
        if v in bound:
            return False
        if v not in variables(s[3]):
            return False
        return binders_ok(s[3], bound + (v,))
    if len(s[2]) != OPS[s[1]]:
        return False
    return all(binders_ok(c, bound) for c in s[2])

def one_arity_per_symbol(sentences):
    seen = {}
    for s in sentences:
        for p in predicates(s):
            if isinstance(p, str):
                continue
            if seen.setdefault(p[:2], p[2]) != p[2]:
                return False
    return True

# ---------------------------------------------------------------- rendering

_STD_OPS = {
    'Assertion': '*', 'Negation': '~', 'Conjunction': '&', 'Disjunction': 'V',
    'MaterialConditional': '>', 'MaterialBiconditional': '<', 'Conditional': '$',
    'Biconditional': '%', 'Possibility': 'P', 'Necessity': 'N'}
_STD_Q = {'Existential': 'X', 'Universal': 'L'}
_STD = {'A': 'ABCDE', 'c': 'abcd', 'v': 'xyzv', 'p': 'FGHO'}
_POL_OPS = {
    'Assertion': 'T', 'Negation': 'N', 'Conjunction': 'K', 'Disjunction': 'A',
    'MaterialConditional': 'C', 'MaterialBiconditional': 'E', 'Conditional': 'U',
    'Biconditional': 'B', 'Possibility': 'M', 'Necessity': 'L'}
_POL_Q = {'Existential': 'S', 'Universal': 'V'}
_POL = {'A': 'abcde', 'c': 'mnos', 'v': 'xyzv', 'p': 'FGHO'}

def _sub(n):
    return str(n) if n else ''

def std(s, *, top=True, infix_identity=False, ws=' ', infix_preds=False):
    """Independent renderer for the documented standard ASCII alphabet
    (doc: lang/_symdata parse table for Notation.standard).  ``infix_preds``: user predicates of arity >= 2 are
    written after their first parameter (``aFb``, ``aGbc``), which the standard parser documents as equivalent."""
    kw = dict(infix_identity=infix_identity, ws=ws, infix_preds=infix_preds)
    t = s[0]
    if t == 'A':
        return _STD['A'][s[1]] + _sub(s[2])
    if t in 'cv':
        return _STD[t][s[1]] + _sub(s[2])
    if t == 'P':
        p = s[1]
        ps = [std(x) for x in s[2]]
        if p == 'Identity':
            if infix_identity:
                return ps[0] + ws + '=' + ws + ps[1]
            return '=' + ''.join(ps)
        if p == 'Existence':
            return '!' + ps[0]
        if infix_preds and len(ps) >= 2:
            return ps[0] + _STD['p'][p[0]] + _sub(p[1]) + ''.join(ps[1:])
        return _STD['p'][p[0]] + _sub(p[1]) + ''.join(ps)
    if t == 'Q':
        return _STD_Q[s[1]] + std(s[2]) + std(s[3], top=False, **kw)
    o = s[1]
    if OPS[o] == 1:
        return _STD_OPS[o] + std(s[2][0], top=False, **kw)
    body = (std(s[2][0], top=False, **kw) + ws + _STD_OPS[o] + ws + std(s[2][1], top=False, **kw))
    return body if top else '(' + body + ')'

def pol(s):
    "Independent renderer for the documented Polish ASCII alphabet."
    t = s[0]
    if t == 'A':
        return _POL['A'][s[1]] + _sub(s[2])
    if t in 'cv':
        return _POL[t][s[1]] + _sub(s[2])
    if t == 'P':
        p = s[1]
        ps = ''.join(pol(x) for x in s[2])
        if p == 'Identity': return 'I' + ps
        if p == 'Existence': return 'J' + ps
        return _POL['p'][p[0]] + _sub(p[1]) + ps
    if t == 'Q':
        return _POL_Q[s[1]] + pol(s[2]) + pol(s[3])
    return _POL_OPS[s[1]] + ''.join(pol(c) for c in s[2])

def show(s):
    return std(s, infix_identity=True)

def show_arg(premises, conclusion):
    return ', '.join(show(p) for p in premises) + ' |- ' + show(conclusion)

# ---------------------------------------------------------------- bridge

def to_lib(s):
    "Build the pytableaux object through public constructors."
    from pytableaux.lang import (Atomic, Constant, Operator, Predicate,
                                 Quantifier, Variable)
    t = s[0]
    if t == 'A':
        return Atomic(s[1], s[2])
    if t == 'c':
        return Constant(s[1], s[2])
    if t == 'v':
        return Variable(s[1], s[2])
    if t == 'P':
        p = s[1]
        pr = Predicate(p) if isinstance(p, str) else Predicate(*p)
        return pr(tuple(to_lib(x) for x in s[2]))
    if t == 'Q':
        return Quantifier[s[1]](to_lib(s[2]), to_lib(s[3]))
    if t == 'O':
        return Operator[s[1]](*(to_lib(c) for c in s[2]))
    raise ValueError(s)

def pred_to_lib(p):
    from pytableaux.lang import Predicate
    return Predicate(p) if isinstance(p, str) else Predicate(*p)

def pred_from_lib(p):
    if p.index < 0:
        return str(p.name)
    return (int(p.index), int(p.subscript), int(p.arity))

def from_lib(x):
    "Read a pytableaux lexical object through public attributes."
    name = type(x).__name__
    if name == 'Atomic':
        return ('A', int(x.index), int(x.subscript))
    if name == 'Constant':
        return ('c', int(x.index), int(x.subscript))
    if name == 'Variable':
        return ('v', int(x.index), int(x.subscript))
    if name == 'Predicated':
        return ('P', pred_from_lib(x.predicate), tuple(from_lib(p) for p in x.params))
    if name == 'Quantified':
        return ('Q', x.quantifier.name, from_lib(x.variable), from_lib(x.sentence))
    if name == 'Operated':
        return ('O', x.operator.name, tuple(from_lib(c) for c in x.operands))
    raise TypeError(name)

def arg_to_lib(premises, conclusion):
    from pytableaux.lang import Argument
    return Argument(to_lib(conclusion), tuple(to_lib(p) for p in premises))
