"""Print the brief given to a fresh sub-agent that writes a seeded change for one property:
   tools/agent_prompt.py C07 > /tmp/prompt-C07.txt   (the agent gets only this text and its own worktree /tmp/seed-C07)"""
import json, os, sys
pid=sys.argv[1]
ROOT=os.path.dirname(os.path.dirname(os.path.abspath(__file__)))
d=next(json.loads(l) for l in open(os.path.join(ROOT,'properties.jsonl')) if json.loads(l)['id']==pid)
prop=f"{d['id']}: {d['title']}\n\n{d['statement']}\n\nQuantified over: {d['quantifier']['text']}\n"
print(f"""You are helping to evaluate a verification effort by playing the role of a developer who introduces a subtle regression.

Codebase: pytableaux (pure-Python multi-logic tableau prover: sentence lexer/parser/writer, rule-driven proof search over branches, countermodel generation for ~60 logics). You have your OWN scratch git worktree of it at /tmp/seed-{pid} . Work ONLY inside /tmp/seed-{pid} (source) and /tmp/seed-{pid}-out (your deliverables). Do NOT read, list or touch /verif or /repo or any other /tmp/seed-* directory -- your work must be independent of any existing checking machinery. There is no network. Run Python as: cd /tmp/seed-{pid} && PYTHONPATH=/tmp/seed-{pid} PYTHONDONTWRITEBYTECODE=1 /venv/bin/python ...

The semantic property you must break:

-----
{prop}-----

Your task: make ONE realistic source change to the package under /tmp/seed-{pid}/pytableaux (a plausible refactoring slip, optimisation, off-by-one, forgotten case, wrong inherited rule, stale cache ... -- not sabotage that any use would expose at once) such that:
 1. the package still imports and the existing test suite still passes unchanged:  cd /tmp/seed-{pid} && PYTHONDONTWRITEBYTECODE=1 /venv/bin/python -m pytest -q -p no:cacheprovider -n 8 --timeout=900 --deselect test/test_web.py --deselect test/tools/test_abcs.py   (expect ~11270 passed; test/test_web.py errors and two Enum-slice failures in test/tools/test_abcs.py under this interpreter are pre-existing and irrelevant). Do not edit anything under test/.
 2. the property above is violated, but only when something SPECIFIC happens: a particular interleaving / tie-break order, a multi-step sequence of operations, an unusual input shape, a particular logic among the ~60, a particular option combination, or two cooperating sites that each look fine alone. Ordinary everyday use should not expose it.
 3. you provide a demonstration: a small standalone program /tmp/seed-{pid}-out/demo.py (plain asserts, exit code 0 = property holds, non-zero = violated) that FAILS with your change and PASSES on the unchanged code. Verify both: run it with your change; then undo your change with `git -C /tmp/seed-{pid} diff > /tmp/seed-{pid}-out/patch.diff && git -C /tmp/seed-{pid} apply -R /tmp/seed-{pid}-out/patch.diff`, run it again (must pass), then re-apply with `git -C /tmp/seed-{pid} apply /tmp/seed-{pid}-out/patch.diff`. Do NOT use git stash (the stash is shared between worktrees).

Deliverables in /tmp/seed-{pid}-out/ :
 - patch.diff   : output of  git -C /tmp/seed-{pid} diff   (source change only, applies with `git apply` / `patch -p1` at the repository root)
 - demo.py      : the demonstration program (it should import pytableaux from PYTHONPATH, not hard-code your worktree path)
 - notes.md     : 5-15 lines: what you changed, why it breaks the property, and exactly what is needed for it to manifest (which logic / input shape / option / order / sequence), plus the commands you ran and their results (test suite summary line, demo with and without the change).

Keep the change small (a few lines). Prefer changes deep in the code the property depends on rather than in obvious entry points. When done, reply with a short summary (what you changed, what it needs to manifest, test-suite result, demo results).""")
