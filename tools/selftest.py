#!/venv/bin/python
"""Sensitivity self-test: apply each mutant (mutants/mutants.py) or seeded change (seeded/<id>/patch.diff)
to a scratch copy of the library, run the named checks against it, expect exit 1 (VIOLATION).

  tools/selftest.py                 all mutants, their listed properties, quick tier
  tools/selftest.py NAME [...]      selected mutants / seeded ids
  tools/selftest.py --props C04 ... restrict the properties that are run
  tools/selftest.py --all-props     run every claimed check against each mutant (cross-sensitivity table)

Scratch copies live under /var/tmp and are removed afterwards.  Nothing under /repo or /verif/evidence is touched.
"""
import json
import os
import shutil
import subprocess
import sys
import tempfile
import time

ROOT = os.path.dirname(os.path.dirname(os.path.abspath(__file__)))
sys.path.insert(0, ROOT)
from mutants.mutants import MUTANTS  # noqa

REPO = '/repo'


def claimed():
    m = json.load(open(os.path.join(ROOT, 'MANIFEST.json')))
    return [c['property_id'] for c in m['checks']]


def make_copy():
    d = tempfile.mkdtemp(prefix='vfmut.', dir='/var/tmp')
    shutil.copytree(os.path.join(REPO, 'pytableaux'), os.path.join(d, 'pytableaux'),
                    ignore=shutil.ignore_patterns('__pycache__'))
    return d


def apply_mutant(d, m):
    name, props, rel, old, new = m
    path = os.path.join(d, 'pytableaux', rel)
    s = open(path).read()
    pairs = old if new is None else [(old, new)]
    for o, n in pairs:
        if s.count(o) != 1:
            raise SystemExit(f'mutant {name}: pattern found {s.count(o)} times in {rel}')
        s = s.replace(o, n)
    open(path, 'w').write(s)


def apply_patch(d, patch):
    r = subprocess.run(['patch', '-p1', '-d', d, '-i', patch, '--no-backup-if-mismatch', '-s'], capture_output=True, text=True)
    if r.returncode:
        raise SystemExit(f'patch {patch} does not apply: {r.stdout}{r.stderr}')


def run_check(pid, d, out, tier='quick'):
    env = dict(os.environ, VERIF_REPO=d, VERIF_OUT=out, VERIF_SHRINK_BUDGET='0')
    t = time.time()
    r = subprocess.run([os.path.join(ROOT, 'check'), pid, tier], capture_output=True, text=True, env=env)
    first = next((l for l in r.stdout.splitlines() if l.startswith('  detail')), '')
    return r.returncode, time.time() - t, first.strip()[:160]


def main(argv):
    props_filter = None
    all_props = False
    names = []
    tier = 'quick'
    i = 0
    while i < len(argv):
        a = argv[i]
        if a == '--props':
            props_filter = []
            i += 1
            while i < len(argv) and not argv[i].startswith('--') and argv[i][0] == 'C' and argv[i][1:].isdigit():
                props_filter.append(argv[i]); i += 1
            continue
        if a == '--all-props':
            all_props = True
        elif a == '--thorough':
            tier = 'thorough'
        else:
            names.append(a)
        i += 1
    todo = []
    for m in MUTANTS:
        if not names or m[0] in names:
            todo.append(('mutant', m[0], m[1], m))
    sdir = os.path.join(ROOT, 'seeded')
    if os.path.isdir(sdir):
        for sid in sorted(os.listdir(sdir)):
            meta = os.path.join(sdir, sid, 'meta.json')
            if os.path.exists(meta) and (not names or sid in names):
                md = json.load(open(meta))
                if md.get('neutralised_by'):
                    continue        # no longer breaks the property on HEAD (a repo fix covers it); see its meta.json
                todo.append(('seeded', sid, md.get('caught_by') or [md['property']], os.path.join(sdir, sid, 'patch.diff')))
    cl = claimed()
    results = []
    failed = 0
    for kind, name, props, payload in todo:
        d = make_copy()
        out = tempfile.mkdtemp(prefix='vfout.', dir='/var/tmp')
        try:
            if kind == 'mutant':
                apply_mutant(d, payload)
            else:
                apply_patch(d, payload)
            run_props = cl if all_props else [p for p in props if p in cl]
            if props_filter is not None:
                run_props = [p for p in run_props if p in props_filter]
            for pid in run_props:
                rc, wall, first = run_check(pid, d, out, tier)
                expected = pid in props
                status = {0: 'missed', 1: 'CAUGHT', 2: 'harness-error'}.get(rc, f'rc={rc}')
                flag = '' if (rc == 1) == expected or not expected else '   <-- expected to be caught'
                if expected and rc != 1:
                    failed += 1
                print(f'{kind:7s} {name:45s} {pid} {status:13s} {wall:6.1f}s {first}{flag}', flush=True)
                results.append(dict(kind=kind, name=name, property=pid, rc=rc, expected=expected, wall=round(wall, 1)))
        finally:
            shutil.rmtree(d, ignore_errors=True)
            shutil.rmtree(out, ignore_errors=True)
    with open(os.path.join(ROOT, 'mutants', 'last_selftest.json'), 'w') as f:
        json.dump(results, f, indent=1)
    print(f'{len(results)} runs, {failed} expected catches missed')
    return 1 if failed else 0


if __name__ == '__main__':
    sys.exit(main(sys.argv[1:]))
