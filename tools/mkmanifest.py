#!/venv/bin/python
"""Regenerate /verif/MANIFEST.json from the table below and validate it.

A property is *claimed* when vf/props/cNN.py exists and has an entry in CHECKS;
every other id from properties.jsonl is listed under not_applicable with a reason.
"""
import json
import os
import sys

ROOT = os.path.dirname(os.path.dirname(os.path.abspath(__file__)))

CHECKS = {
    'C07': dict(
        category='exploration',
        technique='exhaustive enumeration of all truth-table cells against reference tables (finite-domain PBT oracle)',
        text=('Complete enumeration (exhaustive: true) of every logic x truth-functional operator x value tuple '
              'against reference tables transcribed from the doc prose / cited literature, plus value sets, designated '
              'sets, the documented definitions of the defined operators evaluated on the code itself, and cell-by-cell '
              'equality of every modal extension with its base. The domain is finite, so this decides the property '
              'relative to the reference tables.'),
        design_ref='DESIGN.md section 5 C07, section 4',
        note=('Trusted: vf/refsem.py tables (self-tested by algebraic laws in setup_cmd). FDE family: Belnap-Dunn lattice '
              'is the reference; the 12 N/B cells of the code are listed as open known findings (pinned by test_fde.py).')),
    'C03': dict(
        category='exploration',
        technique='exhaustive small-argument enumeration + Hypothesis random arguments, truth-table reference oracle',
        text=('Every argument of the enumerated fragment (exhaustive: true for it) and Hypothesis-generated larger ones '
              'x all 57 logics (x option combinations in the random part) are built by the real prover and the verdict is '
              'compared with an independent truth-table enumeration; termination without limits is asserted (step guard, '
              'no premature, no quit flag). Decides the property on the enumerated fragment, samples it beyond.'),
        design_ref='DESIGN.md section 5 C03',
        note=('Trusted: vf/refsem.py. A wrong verdict is attributed to a root cause by re-checking every applied '
              'operator rule locally (vf/attrib.py); B3E-family biconditional rules are open known findings.')),
    'C04': dict(
        category='exploration',
        technique='complete enumeration of node shapes x contexts x valuations against reference semantics (finite-domain PBT oracle)',
        text=('Complete finite enumeration (exhaustive: true): every logic x node shape x context, the expansion made by '
              'the real rule compared in both directions with the reference semantics for every valuation of the '
              'components (witnesses may denote any element / world; saturation over the canonical model of the branch); '
              'frame rules run on every access-pair set over <= 3 worlds and compared with the required closure.'),
        design_ref='DESIGN.md section 5 C04',
        note=('Trusted: vf/refsem.py; modal operator rules judged against K semantics of the base logic, frame '
              'conditions separately. Components are atomic (compound components are covered by the in-proof step '
              'checker used for attribution).')),
    'C05': dict(
        category='exploration',
        technique='complete enumeration of literal sets x insertion orders against reference satisfiability (finite-domain PBT oracle)',
        text=('Complete finite enumeration (exhaustive: true): every logic x subject kind x subset of literal constraints x '
              'insertion order (plus the classical self-identity / existence literals and cross-world pairs); the branch '
              'must be closed exactly when no reference value satisfies the literals, and the model read from an open '
              'one must satisfy them.'),
        design_ref='DESIGN.md section 5 C05',
        note='Trusted: negation tables and designated sets of vf/refsem.py.'),
    'C06': dict(
        category='exploration',
        technique='Hypothesis rule-based state machine over the Branch API + exhaustive short histories + monitored whole proofs',
        text=('Histories of appends and copies (exhaustive to a depth bound over a small alphabet, random beyond it through a '
              'rule-based state machine) with the freshness invariant checked on every branch after every operation against '
              'an independent walk of the nodes; and every new_constant()/new_world() request made during random first-order / '
              'modal proofs checked at call time.'),
        design_ref='DESIGN.md section 5 C06',
        note='Trusted: the node walk. Exploration: absence beyond the enumerated histories is not established.'),
    'C01': dict(
        category='exploration',
        technique='Hypothesis model-first generation (countermodel by construction) + step-by-step soundness-lemma tracking against reference semantics',
        text=('Arguments are generated together with a reference countermodel, so every case can falsify soundness; the real '
              'prover is run under random option combinations and tie-break schedules (guarded hash-order hook) and must '
              'not report valid; in addition the countermodel is followed through the proof and every rule application must '
              'keep a branch it satisfies, which localises an unsound step even when other open branches mask it.'),
        design_ref='DESIGN.md section 5 C01, section 3',
        note=('Trusted: vf/refsem.py. Exploration only: models have <= 3 worlds / constants, sentences depth <= 3; limited '
              'outcomes are inconclusive. B3E-family biconditional rules are open known findings.')),
    'C02': dict(
        category='exploration',
        technique='Hypothesis argument generation x options x tie-break schedules; library-built countermodels re-evaluated by an independent reference evaluator (differential oracle)',
        text=('Random first-order / modal arguments (three profiles, one biased to several necessity-type nodes) are proved '
              'under random options and schedules; for every limit-free open branch of an invalid completed tableau the '
              'model the library builds is read as raw data and every node of the branch, the frame condition and the '
              'countermodel claim are re-evaluated with vf/refsem.py, and the library evaluator is compared with it. An '
              'unsaturated branch shows up as a node its own model falsifies.'),
        design_ref='DESIGN.md section 5 C02, section 3',
        note=('Trusted: vf/refsem.py, the unassigned-value convention per logic. FDE-family evaluator differences on N/B '
              'pairs are the C07 known finding and are excluded by construction (counted).')),
    'C09': dict(
        category='exploration',
        technique='Hypothesis arguments x full option grid x tie-break schedules (guarded hash-order hook) x premise permutations; metamorphic oracle: one outcome class per argument, nothing raises',
        text=('Each generated argument is proved under every combination of group / rank optimisation and build-vs-step, '
              'under several enumerated tie-break schedules, and with its premises permuted and duplicated; any exception '
              'or two different non-limited verdicts is a violation. The schedule dimension is made enumerable and '
              'replayable by the guarded hash-order hook.'),
        design_ref='DESIGN.md section 5 C09, section 3',
        note='No semantic oracle is involved: only agreement between runs. Limited outcomes are excluded and counted.'),
    'C10': dict(
        category='exploration',
        technique='Hypothesis arguments + metamorphic transformations (reflexivity, added premise, injective renamings) compared between runs of the real prover',
        text=('Metamorphic relations between runs: conclusion-as-premise must be valid; adding a premise must not turn valid '
              'into refuted; injective renamings of letters, constants, predicates and bound variables (new indexes and '
              'subscripts, changing sort and first-appearance order) must keep the outcome class. Reaches first-order '
              'modal arguments for which no enumeration oracle exists.'),
        design_ref='DESIGN.md section 5 C10',
        note='No semantic oracle: agreement between related runs only; limited runs are inconclusive.'),
    'C11': dict(
        category='exploration',
        technique='Hypothesis schema-substitution arguments over every declared (weaker, stronger) pair; differential oracle between the two logics',
        text=('All declared extension pairs are read from the package; arguments biased to validity (substitution instances of '
              'the example schemata and of standard first-order / modal / identity forms) are proved in the weaker logic and, '
              'when valid there, in the stronger one, which must not refute them (and must prove them on the propositional '
              'fragment). Failures are attributed to a locally inexact rule, or to the declaration itself when both verdicts '
              'agree with the truth tables.'),
        design_ref='DESIGN.md section 5 C11',
        note='Agreement between logics only; the per-pair count of valid arguments is reported in the evidence.'),
    'C08': dict(
        category='exploration',
        technique='Hypothesis-generated histories of model-API calls (two orders of the same calls) against an independent reference evaluator; metamorphic order-independence',
        text=('Consistent facts drawn from a target model are supplied through the public set_* / R.add API in two different '
              'orders; after finish() every drawn sentence (quantifiers and modal operators included) is evaluated at every world '
              'by the library and by vf/refsem.py over the supplied facts alone, the finished access relation is compared with the '
              'required closure, and the two orders must agree on values and exported data. Classical identity / existence '
              'completion is part of the reference.'),
        design_ref='DESIGN.md section 5 C08, section 4',
        note='Trusted: vf/refsem.py. Models have <= 3 worlds and constants; FDE-family N/B differences are excluded and counted.'),
    'C20': dict(
        category='exploration',
        technique='Hypothesis-generated models (API histories and open-branch models of random proofs); round-trip oracle between get_data() and value_of over all tuples',
        text=('For models built through the API and models the library reads from open branches, the exported description is '
              'compared with the model itself: worlds and access pairs, every letter / uninterpreted sentence value per world, and '
              'for every predicate every tuple over the constants (in extension iff evaluates to T/B, in anti-extension iff F/B); '
              'sortedness and determinism of the export.'),
        design_ref='DESIGN.md section 5 C20',
        note='The library evaluator is the reference here (C08 judges the evaluator itself).'),
    'C16': dict(
        category='exploration',
        technique='Hypothesis proofs driven step by step with event listeners; history invariants after every step; independent trie of branches vs tab.tree',
        text=('Random proofs are stepped through the public API with listeners on every event; after the trunk and after each step '
              'the bookkeeping invariants of the property are checked against snapshots kept by the harness (prefix growth, '
              'closed-branch immutability, open view, fork prefix, history growth, recorded step numbers, event counts), and the '
              'finished tree / stats are compared with an independently built trie and counted values.'),
        design_ref='DESIGN.md section 5 C16',
        note='Trusted: identity of node objects as the notion of "same node"; timing fields of stats are not judged.'),
    'C17': dict(
        category='exploration',
        technique='Hypothesis-generated limits and operation sequences checked against a reference lifecycle model (model-based testing), harness-owned fake clock for time limits',
        text=('For random proofs the natural length n is measured under a fixed tie-break schedule, then step limits 1..n+1 (all of '
              'them in the thorough tier), None / 0 / negative, and time limits under a fake clock are applied; independently, random '
              'sequences of step / finish / build / setter / rule-mutation calls are executed and every observable (flags, verdicts, '
              'history length, snapshots of finished tableaux, raised error types) is compared with a small reference model of the '
              'lifecycle after every call.'),
        design_ref='DESIGN.md section 5 C17',
        note=('"Started" is read as the library documents it (trunk built or a rule applied). Real-time behaviour of build_timeout is '
              'replaced by a deterministic clock, so only the logic of the limit is judged.')),
    'C19': dict(
        category='exploration',
        technique='Hypothesis finished tableaux x every registered writer format x notation x options; idempotence and an independent token-level rendering of the tree as oracle',
        text=('Valid, invalid and step-limited tableaux of random arguments are rendered by every registered format in both '
              'notations under drawn writer options: nothing may raise, rendering twice must give identical text, the plain-text '
              'output is compared line by line with an independent token rendering of the tree, and for html / latex every node '
              'sentence and the exact number of designation / closure / quit markers must occur.'),
        design_ref='DESIGN.md section 5 C19',
        note='Trusted: tab.tree (C16) and single-sentence LexWriter output (C12).'),
    'C18': dict(
        category='exploration',
        technique='Hypothesis rule-based state machines (model-based testing against a list-without-duplicates model) + exhaustive enumeration of short operation sequences',
        text=('Every public mutator of qset, linqset and Predicates is a rule of a state machine; after each operation the '
              'container is compared with a plain-list model on iteration, reversed, len, membership, index and item access, '
              'rejected operations must raise without effect (single-element) or leave a consistent container (bulk), and the '
              'predicate store invariants are checked. All sequences of length <= 3 (thorough: 4) over a reduced alphabet are '
              'enumerated exhaustively.'),
        design_ref='DESIGN.md section 5 C18',
        note='Trusted: the list model (operations are the documented list / set ones).'),
    'C14': dict(
        category='exploration',
        technique='Hypothesis pairs / triples of lexical items (near-duplicates, cross-type) with construction histories, fresh process per cache size; algebraic laws against an independent structural key',
        text=('Items of all nine lexical types and arguments are generated in pairs and triples biased to differ in one '
              'coordinate; equality, hashing, ordering (trichotomy, rank-first, antisymmetry, transitivity, sort stability), '
              'rebuilding from ident / spec, copy, deepcopy, pickle and immutability are checked against a structural key read '
              'from public attributes, before and after enough other constructions to evict the bounded cache, in separate '
              'processes with ITEM_CACHE_SIZE 1, 2, 7 and 1000. Writes to enum members are probed in a throw-away process.'),
        design_ref='DESIGN.md section 5 C14',
        note='Trusted: the structural walk. ITEM_CACHE_SIZE=0 is not a supported configuration (construction fails outright).'),
    'C15': dict(
        category='exploration',
        technique='exhaustive small universe of sentences x parameter pairs + Hypothesis deep sentences; reference substitution and attribute walkers on nested tuples',
        text=('Substitution, instantiation, negative() and the six derived attributes of the real Sentence classes are compared '
              'with reference implementations on an independent nested-tuple representation: exhaustively for all sentences of '
              'depth <= 2 over a tiny vocabulary x all ordered parameter pairs, and for Hypothesis-generated sentences of depth '
              '<= 5 over the full vocabulary (open sentences, nested quantifiers sharing parameters, self-substitution).'),
        design_ref='DESIGN.md section 5 C15',
        note='Pairs whose old parameter is re-bound inside the sentence are excluded and counted: the property does not fix that edge.'),
    'C12': dict(
        category='exploration',
        technique='Hypothesis sentence generation from the parser grammar; round-trip oracle (write -> parse), independent renderer -> parser, and collision tables for injectivity (plus an exhaustive small universe)',
        text=('Sentences of the parsers\' language with the full vocabulary are written by the library and parsed back (polish), '
              'rendered by an independent standard-notation renderer with optional outer parentheses and random whitespace and parsed '
              'by the standard parser, arguments are rebuilt from their canonical strings, and every (notation, format, dialect) x '
              'writer option set keeps a rendered -> sentence table over all generated sentences and an exhaustively enumerated small '
              'universe in which any collision is a violation.'),
        design_ref='DESIGN.md section 5 C12',
        note='Trusted: the transcription of the documented alphabets in vf/ast.py. The library\'s own standard-notation output is not required to be parseable (the property does not state it).'),
    'C13': dict(
        category='exploration',
        technique='exhaustive short strings + Hypothesis text / grammar-mutation strings with predicate stores and parse histories + atheris (libFuzzer) byte-level target; oracle: Sentence-or-ParseError, independent closedness walker, fresh-parser differential',
        text=('Every string of <= 4 characters over each notation\'s (thinned) alphabet plus a foreign character is parsed '
              '(exhaustive: true for that part); random and grammar-mutated strings are parsed under different predicate stores and '
              'after histories of earlier parses and compared with a fresh parser holding the same store; a coverage-guided '
              'atheris target with the same oracle inside runs from an empty and from a seeded corpus. Anything but a Sentence or a '
              'ParseError, an ill-formed returned sentence, or a history-dependent result is a violation.'),
        design_ref='DESIGN.md section 5 C13',
        note='Trusted: the structural walker. Nesting depth is bounded by the interpreter\'s recursion limit, which is not the parser\'s property; RecursionError is not judged.'),
}

# Later strengthenings, applied to the texts above (each old fragment must still be present).
REVISIONS = [
    ('C09', 'technique', "x premise permutations; metamorphic oracle", "x premise permutations, plus completely enumerated small premise sets under every permutation; metamorphic oracle"),
    ('C09', 'text', "and with its premises permuted and duplicated; any exception or two different non-limited verdicts is a violation.",
     "with model building switched on, and with its premises permuted and duplicated; any exception or two different non-limited verdicts is a violation. "
     "Beside the random search, every 2-/3-element subset of pools of literals, short quantified and short modal sentences is used as the premise set "
     "under every permutation (finite sub-domains where premise order is the only thing that varies)."),
    ('C11', 'technique', "Hypothesis schema-substitution arguments over", "Hypothesis schema-substitution arguments (standard valid forms and modal / quantifier probe forms) over"),
    ('C11', 'text', "are proved in the weaker logic", "and probe forms that hold in few logics (G, McKinsey, agglomeration ...: an unsound weaker logic is refuted by its "
     "stronger partner) are proved in the weaker logic"),
    ('C12', 'technique', "(plus an exhaustive small universe)", "over generated sentences, their one-point neighbours and an exhaustive small universe"),
    ('C12', 'text', "over all generated sentences and an exhaustively enumerated small universe", "over all generated sentences, four one-point neighbours of each (one parameter, "
     "operator or letter changed, operands or parameters swapped) and an exhaustively enumerated small universe (arities 1-4, max_infix 0/3/5)"),
    ('C13', 'technique', "+ atheris (libFuzzer) byte-level target", "+ deep nesting under a lowered recursion limit + atheris (libFuzzer) byte-level target"),
    ('C13', 'text', "and compared with a fresh parser holding the same store;", "and compared with a fresh parser holding the same store (optionally with an unrelated second parser "
     "used in between, and with drop_parens=False); eight nested shapes per notation are parsed at every depth and stack alignment with the recursion limit lowered so that "
     "the stack is exhausted at every point of the parse;"),
    ('C13', 'note', "Nesting depth is bounded by the interpreter's recursion limit, which is not the parser's property; RecursionError is not judged.",
     "Stack exhaustion is part of the input space: a RecursionError escaping the parser is a violation (one such defect was found and fixed, 996bf3a)."),
    ('C17', 'text', "and time limits under a fake clock are applied;", "and time limits under a fake clock -- alone and combined with a step limit -- are applied;"),
    ('C18', 'technique', "+ exhaustive enumeration of short operation sequences", "+ exhaustive enumeration of short operation sequences + atheris (libFuzzer) coverage-guided operation sequences"),
    ('C18', 'text', "are enumerated exhaustively.", "are enumerated exhaustively, and a coverage-guided atheris target decodes bytes into operation sequences for the same oracle."),
    ('C19', 'text', "rendering twice must give identical text,", "rendering twice must give identical text -- back to back and again after every other writer has been used --,"),
    ('C04', 'note', "Components are atomic (compound components", "Components are atomic or negated atoms (other compound components"),
    ('C06', 'text', "and every new_constant()/new_world() request made during random first-order / modal proofs checked at call time.",
     "and random first-order / modal proofs are stepped: every new_constant()/new_world() request is checked at call time, and every witness step (quantifier / modal / "
     "Serial) is compared with a snapshot of the branch taken before it, whether or not the rule asked the branch for its witness."),
    ('C08', 'note', "Models have <= 3 worlds and constants;", "Models have up to 5 worlds (access chains: 8) and up to 6 constants;"),
    ('C01', 'text', "Arguments are generated together with a reference countermodel,", "Arguments are generated together with a reference countermodel (a third of them rule-first: "
     "several instances of one drawn top-level form),"),
]
# Sentences appended to the texts (later strengthenings that extend rather than replace what is said above).
ADDENDA = {
    'C02': 'Profiles: generic, modal-heavy, modal-deep, quantifier-heavy, identity-heavy and first-order-modal (quantifiers under modal operators); a share of the cases is rule-first (one drawn top-level form as a premise or the conclusion).',
    'C05': 'The enumeration also covers crowded branches (one literal already present at eight other worlds, then every 1-/2-element set at world 0) and the identity pairs alternating between two worlds.',
    'C06': 'A per-logic finite sub-domain runs every quantifier shape on a hand-made branch where a constant already occurs, in modal logics also at another world than the shape.',
    'C07': 'The evaluator stream takes operands of every kind, including letters and predications the model never hears about (default value) and one sentence on both sides of a binary operator, and the law "a logic that does not declare Assertion native has a transparent assertion" is checked against the package\'s own declaration.',
    'C08': 'Target models have up to 5 worlds and, in a quarter of the cases, up to 6 constants; sparse access chains through up to 8 worlds; world names spread injectively and non-monotonically over 0..40 in a third of the modal cases; a bystander model with rotated values is built before anything is evaluated.',
    'C01': 'In K, D, T, S4 and S5 a third of the cases come from the finite sub-domain of literals over two constants (identity both ways round, in half of them also a predication, negations) under 0-2 modal operators, so that literals of different worlds meet on one branch.',
    'C10': 'Reflexivity is also checked with the conclusion among several identical premises. A sixth of the cases come from the witness sub-domain (one literal per constant for 2-3 constants in a drawn order of appearance, an existential premise, its body about one of the constants as conclusion), where only names and their order differ between variants.',
    'C13': 'Two parsers built over one store object are interleaved on strings with clashing arities; every result must be the same whether the store starts empty or with a declaration of a symbol that occurs nowhere (irrelevant-declaration invariance).',
    'C14': 'Subscripts include values that CPython hashes like small ones (n + 2**61 - 1), so that distinct items with equal hashes meet in the construction cache.',
    'C18': 'The store universe includes the two system predicates and membership is compared for every published reference; bulk operations are also called with the container itself as argument; sort is called with tie-producing and constant keys.',
    'C20': 'API-built models share the generator of C08 (scattered world names, permuted calls, two-digit subscripts); for models read from a branch the exported uninterpreted sentences are compared with the uninterpreted literals that occur on the branch (proofs keep the fragments a logic does not interpret with a small weight).',
}
for _k, _extra in ADDENDA.items():
    CHECKS[_k]['text'] = CHECKS[_k]['text'].rstrip() + ' ' + _extra
for _k, _f, _old, _new in REVISIONS:
    assert _old in CHECKS[_k][_f], (_k, _f, _old[:40])
    CHECKS[_k][_f] = CHECKS[_k][_f].replace(_old, _new, 1)

NOT_YET = 'check not built yet in this session (planned, see DESIGN.md section 5); no claim is made'

def main():
    props = [json.loads(l) for l in open(os.path.join(ROOT, 'properties.jsonl'))]
    checks = []
    na = []
    for p in props:
        pid = p['id']
        c = CHECKS.get(pid)
        if c is None or not os.path.exists(os.path.join(ROOT, 'vf', 'props', pid.lower() + '.py')):
            na.append(dict(property_id=pid, reason=NOT_YET))
            continue
        checks.append(dict(
            property_id=pid,
            quick_cmd=f'./check {pid} quick',
            thorough_cmd=f'./check {pid} thorough',
            evidence_file=f'/verif/evidence/{pid}.json',
            replay_cmd_template=f'./check {pid} --replay {{path}}',
            engine='vf',
            level_claimed=dict(category=c['category'], text=c['text'], design_ref=c['design_ref']),
            level_note=c['note'],
            technique=c['technique']))
    manifest = dict(
        version=1,
        setup_cmd='./setup.sh',
        hooks=dict(
            guard='PYTABLEAUX_VERIF',
            enable=('no build step: checks import /repo (or $VERIF_REPO) directly with PYTABLEAUX_VERIF=1 in the '
                    'environment (set by ./check); PYTABLEAUX_VERIF_ORDER / vf reseeding select the tie-break schedule'),
            baseline_off_cmd=('cd /repo && env -u PYTABLEAUX_VERIF -u PYTABLEAUX_VERIF_ORDER /venv/bin/python -m pytest -ra -q '
                              '-p no:cacheprovider --timeout=900 --continue-on-collection-errors'),
            source_commits=HOOK_COMMITS,
            add_only=True),
        engines=[dict(
            name='vf', path='/verif/vf', serves_properties=[c['property_id'] for c in checks],
            kind_free_text=('Hypothesis strategies / rule-based state machines, exhaustive enumeration of finite '
                            'sub-domains, atheris byte-level targets; explicit oracles in vf/refsem.py and vf/model/'))],
        checks=checks,
        notes=('One entry point: ./check <ID> quick|thorough|--replay <file>. Exit 0 = held, 1 = VIOLATION line printed, '
               '2 = harness error (never a violation). Known findings: known_findings.json.'),
        not_applicable=na)
    path = os.path.join(ROOT, 'MANIFEST.json')
    with open(path, 'w') as f:
        json.dump(manifest, f, indent=1)
    try:
        import jsonschema
        schema = json.load(open('/root/.vp/MANIFEST.schema.json'))
        jsonschema.validate(manifest, schema)
        print('MANIFEST.json valid;', len(checks), 'claimed,', len(na), 'not claimed')
    except ImportError:
        print('MANIFEST.json written (jsonschema not available);', len(checks), 'claimed')

HOOK_COMMITS = ['6844b2f']

if __name__ == '__main__':
    sys.exit(main())
