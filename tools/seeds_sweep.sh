#!/bin/sh
# Quietness sweep: every quick check at several VERIF_SEED values on the unchanged tree (used with `vp run`).
cd "$(dirname "$0")/.." || exit 2
./setup.sh >/dev/null 2>&1
for s in ${SEEDS:-2 3 4 5}; do
  for p in C01 C02 C03 C04 C05 C06 C07 C08 C09 C10 C11 C12 C13 C14 C15 C16 C17 C18 C19 C20; do
    VERIF_SEED=$s ./check $p quick > /tmp/sweep.$p.log 2>&1; rc=$?
    echo "seed=$s $p rc=$rc $(tail -1 /tmp/sweep.$p.log | cut -c1-160)"
    [ $rc -ne 0 ] && grep -h "^VIOLATION\|^  fingerprint\|^  detail\|HARNESS" /tmp/sweep.$p.log | cut -c1-500 | head -12
  done
done
