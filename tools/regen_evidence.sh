#!/bin/sh
# Regenerate every evidence file from /verif against /repo at the default seed (run on an otherwise idle machine),
# then rebuild and validate MANIFEST.json.   tools/regen_evidence.sh
cd "$(dirname "$0")/.." || exit 2
./setup.sh >/dev/null 2>&1
fail=0
for p in C01 C02 C03 C04 C05 C06 C07 C08 C09 C10 C11 C12 C13 C14 C15 C16 C17 C18 C19 C20; do
  VERIF_SEED=1 ./check $p quick > /tmp/regen.$p.log 2>&1; rc=$?
  echo "$p rc=$rc $(tail -1 /tmp/regen.$p.log | cut -c1-170)"
  [ $rc -ne 0 ] && fail=1
done
python3-vt tools/mkmanifest.py | tail -1
exit $fail
