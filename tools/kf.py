#!/venv/bin/python
"""Maintain known_findings.json by hand:  tools/kf.py add <property> <fingerprint> <what_fails> [example]
                                        tools/kf.py fixed <property> <fingerprint> <commit> <what_failed>
                                        tools/kf.py shorten"""
import json, os, sys
P = os.path.join(os.path.dirname(os.path.dirname(os.path.abspath(__file__))), 'known_findings.json')
d = json.load(open(P))
cmd = sys.argv[1]
if cmd == 'add':
    prop, fp, what = sys.argv[2:5]
    ex = sys.argv[5] if len(sys.argv) > 5 else ''
    d['findings'] = [e for e in d['findings'] if not (e['property'] == prop and e['fingerprint'] == fp)]
    d['findings'].append(dict(property=prop, fingerprint=fp, status='open', what_fails=what, example=ex))
elif cmd == 'fixed':
    prop, fp, commit, what = sys.argv[2:6]
    d['findings'] = [e for e in d['findings'] if not (e['property'] == prop and e['fingerprint'] == fp)]
    d['findings'].append(dict(property=prop, fingerprint=fp, status='fixed', commit=commit,
                              record=f'fixed: property={prop} {commit} {what}', what_fails=what))
d['findings'].sort(key=lambda e: (e['property'], e['fingerprint']))
json.dump(d, open(P, 'w'), indent=1)
print(len(d['findings']), 'entries')
