#!/bin/sh
# Confirm a seeded change written by a sub-agent, independently of what the agent reported:
#   tools/seed_eval.sh <property-id> <name> <dir with patch.diff + demo.py>
# 1. patch applies to a fresh scratch worktree of /repo HEAD   2. unchanged suite still passes there (guard off)
# 3. demo fails with the patch, passes without                 4. copy into /verif/seeded/<name>/ with meta.json stub
# The worktree lives under /var/tmp and is removed at the end.  Nothing is applied to /repo.
set -u
PID=$1; NAME=$2; SRC=$3
ROOT=$(cd "$(dirname "$0")/.." && pwd)
WT=$(mktemp -d /var/tmp/seedwt.XXXXXX); rmdir "$WT"
git -C /repo worktree add -q --detach "$WT" HEAD || exit 2
cleanup() { git -C /repo worktree remove --force "$WT" 2>/dev/null; rm -rf "$WT"; }
trap cleanup EXIT
echo "== demo on unchanged tree (must pass)"
PYTHONPATH="$WT" PYTHONDONTWRITEBYTECODE=1 timeout 900 /venv/bin/python "$SRC/demo.py" >/tmp/seed_eval.clean.log 2>&1; CLEAN=$?
echo "   exit $CLEAN"
git -C "$WT" apply "$SRC/patch.diff" || { echo "patch does not apply"; exit 2; }
echo "== demo on patched tree (must fail)"
PYTHONPATH="$WT" PYTHONDONTWRITEBYTECODE=1 timeout 900 /venv/bin/python "$SRC/demo.py" >/tmp/seed_eval.patched.log 2>&1; PATCHED=$?
echo "   exit $PATCHED; last line: $(tail -1 /tmp/seed_eval.patched.log | cut -c1-200)"
echo "== pinned suite on patched tree (guard off)"
SUITE_OK=false
"$ROOT/tools/baseline.sh" "$WT" >/tmp/seed_eval.suite.log 2>&1 && SUITE_OK=true
tail -1 /tmp/seed_eval.suite.log
if [ "$CLEAN" = 0 ] && [ "$PATCHED" != 0 ] && [ "$SUITE_OK" = true ]; then
  mkdir -p "$ROOT/seeded/$NAME"
  cp "$SRC/patch.diff" "$SRC/demo.py" "$ROOT/seeded/$NAME/"
  [ -f "$SRC/notes.md" ] && cp "$SRC/notes.md" "$ROOT/seeded/$NAME/"
  echo "CONFIRMED: kept as seeded/$NAME (write meta.json next)"
else
  echo "NOT CONFIRMED (clean=$CLEAN patched=$PATCHED suite_ok=$SUITE_OK)"
fi
