#!/bin/sh
# Run the repository's pinned suite with the guard OFF and compare with /root/.vp/BASELINE.json stable_pass.
OUT=$(mktemp -d /var/tmp/baseline.XXXXXX)
cd "${1:-/repo}" || exit 2
env -u PYTABLEAUX_VERIF -u PYTABLEAUX_VERIF_ORDER PYTHONDONTWRITEBYTECODE=1 /venv/bin/python -m pytest -q -p no:cacheprovider --timeout=900 \
  --continue-on-collection-errors -n 12 --junitxml="$OUT/j.xml" >"$OUT/log" 2>&1
tail -1 "$OUT/log"
/venv/bin/python - "$OUT/j.xml" <<'PY'
import sys, json, xml.etree.ElementTree as ET
base=set(json.load(open('/root/.vp/BASELINE.json'))['stable_pass'])
passed=set()
for tc in ET.parse(sys.argv[1]).getroot().iter('testcase'):
    if not any(ch.tag in ('failure','error','skipped') for ch in tc):
        passed.add(f"{tc.get('classname')}::{tc.get('name')}")
missing=sorted(base-passed)
print('baseline stable_pass:',len(base),'passed now:',len(passed),'missing:',len(missing))
for m in missing[:20]: print('  MISSING',m)
sys.exit(1 if missing else 0)
PY
rc=$?
rm -rf "$OUT"
exit $rc
