#!/venv/bin/python
"""Which rule classes do the generated proofs of a check actually apply?   tools/rule_coverage.py C02 [nshards]
Runs the first shards of the check's quick tier with Tableau.step wrapped to count (logic, rule) applications and
prints, per logic, the rules of its rule table that were never applied.  Diagnostic only (not a check)."""
import importlib
import os
import sys
from collections import Counter
from multiprocessing import Pool

ROOT = os.path.dirname(os.path.dirname(os.path.abspath(__file__)))
sys.path[:0] = [ROOT, os.path.join(ROOT, '.deps'), os.environ.get('VERIF_REPO', '/repo')]
os.environ.setdefault('PYTABLEAUX_VERIF', '1')


def work(args):
    pid, shard = args
    from vf import core
    mod = importlib.import_module(f'vf.props.{pid.lower()}')
    from pytableaux.proof import Tableau
    counts = Counter()
    orig = Tableau.step

    def step(self):
        e = orig(self)
        if e is not None and e.rule is not None:
            counts[self.logic.Meta.name, type(e.rule).__name__] += 1
            from vf.attrib import impl_name
            counts['impl', '/'.join(impl_name(e.rule))] += 1
        return e
    Tableau.step = step
    try:
        mod.run_shard(shard, core.Acc())
    finally:
        Tableau.step = orig
    return counts


def main():
    pid = sys.argv[1]
    n = int(sys.argv[2]) if len(sys.argv) > 2 else 16
    mod = importlib.import_module(f'vf.props.{pid.lower()}')
    shards = [s for s in mod.shards('quick', 1) if 'literal_sets' not in s][:n]
    with Pool(16) as p:
        total = Counter()
        for c in p.imap_unordered(work, [(pid, s) for s in shards]):
            total.update(c)
    from vf.lib import all_logic_names, get_logic
    from vf.attrib import impl_name
    from pytableaux.proof import Tableau
    impls = {}
    for name in all_logic_names():
        for r in Tableau(get_logic(name)).rules:
            impls.setdefault('/'.join(impl_name(r)), []).append(name)
    never = sorted(k for k in impls if not total['impl', k])
    print(f'{pid}: {len(impls) - len(never)}/{len(impls)} implementing (class / rule name) pairs applied at least once; never applied:')
    for k in never:
        print(f'  {k}   (logics: {", ".join(impls[k][:6])}{" ..." if len(impls[k]) > 6 else ""})')
    if os.environ.get('PER_LOGIC') != '1':
        return
    missing = {}
    nrules = 0
    for name in all_logic_names():
        logic = get_logic(name)
        rules = [rc.name for rc in logic.Rules.closure] + [rc.name for g in logic.Rules.groups for rc in g]
        nrules += len(rules)
        miss = [r for r in rules if not total[name, r]]
        if miss:
            missing[name] = miss
    print(f'{pid}: {sum(total.values())} rule applications over {len(shards)} shards; '
          f'{nrules - sum(map(len, missing.values()))}/{nrules} (logic, rule) cells applied at least once')
    for name, miss in sorted(missing.items()):
        print(f'  {name}: never applied: {", ".join(miss)}')


if __name__ == '__main__':
    main()
