#!/bin/sh
# Run named checks against a confirmed seeded change:  tools/seed_check.sh <seeded-name> <ID> [<ID> ...]
# Applies seeded/<name>/patch.diff to a scratch copy of /repo/pytableaux under /var/tmp (never to /repo), runs
# each check's quick tier with VERIF_REPO pointing at the copy and VERIF_OUT redirected, prints CAUGHT / missed.
NAME=$1; shift
ROOT=$(cd "$(dirname "$0")/.." && pwd)
D=$(mktemp -d /var/tmp/vfseed.XXXXXX); O=$(mktemp -d /var/tmp/vfout.XXXXXX)
trap 'rm -rf "$D" "$O"' EXIT
cp -r /repo/pytableaux "$D/" && find "$D" -name __pycache__ -prune -exec rm -rf {} + 2>/dev/null
patch -s -p1 -d "$D" -i "$ROOT/seeded/$NAME/patch.diff" --no-backup-if-mismatch || { echo "patch failed"; exit 2; }
for P in "$@"; do
  start=$(date +%s)
  VERIF_REPO="$D" VERIF_OUT="$O" VERIF_SHRINK_BUDGET=0 "$ROOT/check" "$P" "${TIER:-quick}" > "$O/log" 2>&1; rc=$?
  case $rc in 1) res=CAUGHT;; 0) res=missed;; *) res="harness-error($rc)";; esac
  echo "$NAME $P $res $(( $(date +%s) - start ))s $(grep -m1 '^  detail' "$O/log" | cut -c1-220)"
done
