#!/bin/sh
# Run every thorough tier in sequence (used with `vp run`); prints one summary line per property.
cd "$(dirname "$0")/.." || exit 2
./setup.sh >/dev/null 2>&1
for p in ${*:-C07 C05 C18 C15 C12 C14 C13 C06 C20 C08 C16 C19 C17 C04 C10 C11 C09 C02 C01 C03}; do
  start=$(date +%s)
  ./check $p thorough > /tmp/thorough.$p.log 2>&1
  rc=$?
  echo "== $p rc=$rc $(( $(date +%s) - start ))s : $(tail -1 /tmp/thorough.$p.log | cut -c1-200)"
  grep -h "^VIOLATION\|^  fingerprint\|^  detail\|HARNESS" /tmp/thorough.$p.log | cut -c1-400 | head -20
done
